// Sanitizer/oracle driver for the repository's Berlekamp-Massey code (C14).
// Both compile-time variants of berlekamp_massey.cc are linked into this one
// binary; each was compiled with -Dparanoid_crypto=<ns> so the top-level
// namespace differs.  The oracle is the *definition* of linear complexity:
// the smallest L for which the linear system s_j = sum_i c_i s_{j-i}
// (j = L..n-1) over GF(2) is solvable, decided by Gaussian elimination.
#include <cstdint>
#include <cstdio>
#include <cstdlib>
#include <cstring>
#include <string>
#include <vector>

#define DECL(ns)                                                        \
  namespace ns::lib::randomness_tests::cc_util {                        \
  int LfsrLengthStr(const std::string& seq, int n);                     \
  bool LfsrLength(const std::vector<uint8_t>& seq, int n, int* length); \
  }
DECL(pc_portable)
DECL(pc_clmul)

static inline int bit(const std::vector<uint8_t>& s, int j) {
  return (s[j >> 3] >> (j & 7)) & 1;
}

// Is there an LFSR of length L generating the first n bits?
static bool Solvable(const std::vector<uint8_t>& s, int n, int L) {
  if (L >= n) return true;
  int words = (L + 1 + 63) / 64;  // L unknowns + rhs
  int rows = n - L;
  std::vector<std::vector<uint64_t>> m(rows, std::vector<uint64_t>(words, 0));
  for (int r = 0; r < rows; r++) {
    int j = L + r;
    for (int i = 1; i <= L; i++)
      if (bit(s, j - i)) m[r][(i - 1) >> 6] |= 1ULL << ((i - 1) & 63);
    if (bit(s, j)) m[r][L >> 6] |= 1ULL << (L & 63);
  }
  int rank = 0;
  for (int c = 0; c < L && rank < rows; c++) {
    int piv = -1;
    for (int r = rank; r < rows; r++)
      if ((m[r][c >> 6] >> (c & 63)) & 1) { piv = r; break; }
    if (piv < 0) continue;
    m[rank].swap(m[piv]);
    for (int r = 0; r < rows; r++)
      if (r != rank && ((m[r][c >> 6] >> (c & 63)) & 1))
        for (int w = 0; w < words; w++) m[r][w] ^= m[rank][w];
    rank++;
  }
  for (int r = rank; r < rows; r++) {
    bool zero = true;
    for (int c = 0; c < L; c++)
      if ((m[r][c >> 6] >> (c & 63)) & 1) { zero = false; break; }
    if (zero && ((m[r][L >> 6] >> (L & 63)) & 1)) return false;
  }
  // rows < rank are pivots: consistent by construction
  return true;
}

static int OracleLinear(const std::vector<uint8_t>& s, int n) {
  for (int L = 0; L <= n; L++)
    if (Solvable(s, n, L)) return L;
  return n;
}

// Solvability is upward closed in L (an LFSR of length L extends to L+1).
static int OracleBisect(const std::vector<uint8_t>& s, int n) {
  int lo = 0, hi = n;  // smallest solvable L in [lo, hi]
  while (lo < hi) {
    int mid = (lo + hi) / 2;
    if (Solvable(s, n, mid)) hi = mid; else lo = mid + 1;
  }
  return lo;
}

static int Run(int variant, const std::string& seq, int n) {
  if (variant == 0)
    return pc_portable::lib::randomness_tests::cc_util::LfsrLengthStr(seq, n);
  return pc_clmul::lib::randomness_tests::cc_util::LfsrLengthStr(seq, n);
}

// exh <variant> <n> <part> <parts>: all sequences of length n in this part.
static int Exhaustive(int variant, int n, uint64_t part, uint64_t parts) {
  std::vector<uint64_t> counts(n + 2, 0);
  uint64_t total = 1ULL << n, bad = 0, evals = 0;
  size_t nbytes = (n + 7) / 8;
  for (uint64_t v = part; v < total; v += parts) {
    std::string seq(nbytes, '\0');
    std::vector<uint8_t> sv(nbytes, 0);
    for (size_t i = 0; i < nbytes; i++) {
      seq[i] = static_cast<char>((v >> (8 * i)) & 0xff);
      sv[i] = static_cast<uint8_t>((v >> (8 * i)) & 0xff);
    }
    int want = n <= 12 ? OracleLinear(sv, n) : OracleBisect(sv, n);
    if (n <= 12 && want != OracleBisect(sv, n)) {
      printf("ORACLE-SELF-MISMATCH n=%d v=%llu\n", n, (unsigned long long)v);
      return 3;
    }
    int got = Run(variant, seq, n);
    evals++;
    if (want >= 0 && want <= n) counts[want]++;
    if (got != want) {
      if (bad < 5)
        printf("MISMATCH variant=%d n=%d v=%llu got=%d want=%d\n", variant, n,
               (unsigned long long)v, got, want);
      bad++;
    }
    // also with trailing garbage bits/bytes beyond n (must be ignored)
    if ((v & 7) == 0) {
      std::string seq2 = seq;
      if (n & 7) seq2[nbytes - 1] |= static_cast<char>(0xff << (n & 7));
      seq2 += "\xa5";
      int got2 = Run(variant, seq2, n);
      evals++;
      if (got2 != want) {
        if (bad < 5)
          printf("MISMATCH-GARBAGE variant=%d n=%d v=%llu got=%d want=%d\n",
                 variant, n, (unsigned long long)v, got2, want);
        bad++;
      }
    }
  }
  printf("EXH variant=%d n=%d evals=%llu bad=%llu counts=", variant, n,
         (unsigned long long)evals, (unsigned long long)bad);
  for (int L = 0; L <= n; L++) printf("%llu,", (unsigned long long)counts[L]);
  printf("\n");
  return 0;
}

static int HexVal(char c) {
  return c <= '9' ? c - '0' : (c | 32) - 'a' + 10;
}

// cases: stdin lines "<n> <hex or ->" ; prints "<idx> <portable> <clmul> <oracle>"
static int Cases(int oracle_max) {
  char* line = nullptr;
  size_t cap = 0;
  ssize_t len;
  int idx = 0;
  while ((len = getline(&line, &cap, stdin)) > 0) {
    char* sp = strchr(line, ' ');
    if (!sp) continue;
    long n = strtol(line, nullptr, 10);
    std::string seq;
    for (char* p = sp + 1; p[0] && p[1] && p[0] != '\n' && p[0] != '-'; p += 2)
      seq.push_back(static_cast<char>(HexVal(p[0]) * 16 + HexVal(p[1])));
    int a = Run(0, seq, static_cast<int>(n));
    int b = Run(1, seq, static_cast<int>(n));
    int o = -2;
    if (n >= 0 && static_cast<size_t>(n) <= 8 * seq.size() && n <= oracle_max) {
      std::vector<uint8_t> sv(seq.begin(), seq.end());
      o = OracleBisect(sv, static_cast<int>(n));
    }
    // the vector<uint8_t> entry point must agree with the string one
    std::vector<uint8_t> sv(seq.begin(), seq.end());
    int l0 = -7, l1 = -7;
    bool ok0 = pc_portable::lib::randomness_tests::cc_util::LfsrLength(
        sv, static_cast<int>(n), &l0);
    bool ok1 = pc_clmul::lib::randomness_tests::cc_util::LfsrLength(
        sv, static_cast<int>(n), &l1);
    int va = ok0 ? l0 : -1, vb = ok1 ? l1 : -1;
    printf("%d %d %d %d %d %d\n", idx++, a, b, o, va, vb);
  }
  free(line);
  return 0;
}

int main(int argc, char** argv) {
  if (argc >= 6 && !strcmp(argv[1], "exh"))
    return Exhaustive(atoi(argv[2]), atoi(argv[3]), strtoull(argv[4], 0, 10),
                      strtoull(argv[5], 0, 10));
  if (argc >= 3 && !strcmp(argv[1], "cases")) return Cases(atoi(argv[2]));
  fprintf(stderr, "usage: exh <variant> <n> <part> <parts> | cases <omax>\n");
  return 2;
}
