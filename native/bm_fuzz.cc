// libFuzzer target: differential check of both BM variants against the
// definitional oracle (see bm_driver.cc).  Input: 2 bytes n, rest sequence.
#include <cstdint>
#include <cstdio>
#include <cstdlib>
#include <string>
#include <vector>

#define main bm_driver_main
#include "bm_driver.cc"
#undef main

extern "C" int LLVMFuzzerTestOneInput(const uint8_t* data, size_t size) {
  if (size < 2) return 0;
  int nraw = data[0] | (data[1] << 8);
  std::string seq(reinterpret_cast<const char*>(data + 2), size - 2);
  int maxn = 8 * static_cast<int>(seq.size());
  int n = nraw % (maxn + 9);  // sometimes beyond the buffer: must be rejected
  int a = Run(0, seq, n), b = Run(1, seq, n);
  int want;
  if (n > maxn) {
    want = -1;
  } else {
    std::vector<uint8_t> sv(seq.begin(), seq.end());
    want = OracleBisect(sv, n);
  }
  if (a != want || b != want) {
    fprintf(stderr, "FUZZ-MISMATCH n=%d portable=%d clmul=%d want=%d\n", n, a,
            b, want);
    abort();
  }
  return 0;
}
