#!/usr/bin/env python3
"""Mutation self-test (DESIGN section 6): applies deliberate, realistic
property-breaking edits to a scratch copy of /repo and requires the property's
quick check to exit 1 with a VIOLATION line.

  /venv/bin/python tools/selftest.py [--only C03[,C04]] [--ids m1,m2] [--par 3]

Scratch copies live under /tmp/vp-mut-* and are removed immediately.
Results: selftest_results.json (committed for the record; not evidence).
"""
import argparse
import concurrent.futures
import json
import os
import shutil
import subprocess
import sys
import time

V = os.path.dirname(os.path.dirname(os.path.abspath(__file__)))
sys.path.insert(0, V)
L = 'paranoid_crypto/lib/'
R = L + 'randomness_tests/'

# (id, property, file, old, new)
MUTANTS = [
    # C01
    ('c01-fermat-pair', 'C01', L + 'rsa_util.py',
     'return a + gmpy.isqrt(b2), a - gmpy.isqrt(b2)',
     'return a + gmpy.isqrt(b2), a - gmpy.isqrt(b2) + 2'),
    ('c01-checkfraction-guard', 'C01', L + 'rsa_util.py',
     "    p = gmpy.gcd(ax * w + cx, n)\n    if 1 < p < n:",
     "    p = gmpy.gcd(ax * w + cx, n)\n    if 1 <= p <= n:"),
    ('c01-gcd-factor', 'C01', L + 'rsa_aggregate_checks.py',
     'factors = [gcds[i], vals[i] // gcds[i]]',
     'factors = [gcds[i] + 2, vals[i] // gcds[i]]'),
    # (F21 reverted: trivial [n, 1] when n divides the product of the others)
    ('c01-gcd-trivial', 'C01', L + 'rsa_aggregate_checks.py',
     '        if gcds[i] == vals[i]:\n', '        if gcds[i] == vals[i] + 1:\n'),
    ('c01-keypair-product', 'C01', L + 'rsa_single_checks.py',
     '        if p * q == n:\n', '        if p * q >= n >> 3:\n'),
    # C02
    ('c02-issuerdlogs-any', 'C02', L + 'ecdsa_sig_checks.py',
     "    if guess_pk in pks:\n      for idx in pks[guess_pk]:\n        issuer_dlogs[idx] = guesses[i]",
     "    if guess_pk in pks or len(pks) == 1:\n      for idx in pks.get(guess_pk, list(pks.values())[0]):\n        issuer_dlogs[idx] = guesses[i]"),
    ('c02-batchdl-sign', 'C02', L + 'ec_util.py',
     "              elif y[1] == -p[1] % self.mod:\n                res[i] = -dl",
     "              elif y[1] == -p[1] % self.mod:\n                res[i] = dl"),
    ('c02-diff-verify', 'C02', L + 'ec_util.py',
     '            if diff == diff2:', '            if diff[0] == diff2[0]:'),
    # C03
    # (swapping the parity of the pass-through test only costs a reduction:
    # gcd(v, x) == gcd(v, x mod v); equivalent)
    ('c03-parent-index', 'C03', L + 'rsa_util.py',
     '        remainders[i] = prev[i // 2] % unique_values[i]',
     '        remainders[i] = prev[min((i + 1) // 2, len(prev) - 1)] % unique_values[i]'),
    ('c03-lastt', 'C03', L + 'ntheory_util.py',
     "    if len(values) % 2 == 1:\n      t.append(last_t)",
     "    if len(values) % 2 == 1 and len(values) < 64:\n      t.append(last_t)"),
    ('c03-dedup', 'C03', L + 'rsa_util.py',
     'unique_values = list(set(values))', 'unique_values = list(values)'),
    ('c03-bound', 'C03', L + 'rsa_aggregate_checks.py',
     'if gcds[i] >= self._gcd_bound:', 'if gcds[i] > self._gcd_bound:'),
    # C04
    ('c04-fermat-steps', 'C04', L + 'rsa_util.py',
     '  for _ in range(max_steps):\n    if gmpy.is_square(b2):',
     '  for _ in range(max_steps - 1):\n    if gmpy.is_square(b2):'),
    # (middle_bits = 1 still factors at the property's +2-bit margin)
    ('c04-sqrt-start', 'C04', L + 'rsa_util.py',
     '  a = gmpy.isqrt(n - 1) + 1\n  for r in [r0, 2**k - r0]:',
     '  a = gmpy.isqrt(n - 1) + 1\n  for r in [r0]:'),
    ('c04-drop-diff', 'C04', L + 'rsa_util.py',
     '      2 ** (prime_size - 160),\n', ''),
    ('c04-msb11', 'C04', L + 'rsa_single_checks.py',
     'for p_1 in {p_0, p_0 | msb_1, p_0 | msb_11}:',
     'for p_1 in {p_0, p_0 | msb_1}:'),
    ('c04-early-return', 'C04', L + 'special_case_factoring.py',
     "        if 1 < g < n:\n          return [g, n // g]\n  return None",
     "        if 1 < g < n:\n          return [g, n // g]\n      return None\n  return None"),
    # C05
    # (dropping 31 is observationally equivalent: d0 = 1 finds patterns up to
    # ~100 bits, as CheckFraction's docstring says)
    # (dropping any default size - 31, 127, 255 - is observationally
    # equivalent inside the property's region w <= bits/16: CheckFraction with
    # d0 = 1 alone factors those moduli, probed at 2048 and 4096 bits)
    ('c05-maxpattern', 'C05', L + 'rsa_single_checks.py',
     '      max_pattern_size = n.bit_length() // 8\n',
     '      max_pattern_size = n.bit_length() // 32\n'),
    ('c05-psize-step', 'C05', L + 'rsa_single_checks.py',
     'for psize in range(3, wsize, 2):', 'for psize in range(3, wsize, 4):'),
    ('c05-lhw-cutoff', 'C05', L + 'rsa_util.py',
     'n: int, cutoff: int = 2500, maxsteps: int = 10**6',
     'n: int, cutoff: int = 25, maxsteps: int = 10**6'),
    ('c05-pollard-gate', 'C05', L + 'rsa_util.py',
     'n: int, m: Optional[int] = None, gcd_bound: int = 2**60',
     'n: int, m: Optional[int] = None, gcd_bound: int = 2**90'),
    ('c05-x-balance', 'C05', L + 'rsa_util.py',
     '  x = 2 ** d0.bit_length()\n', '  x = 2 ** (d0.bit_length() // 2)\n'),
    # C06
    ('c06-size', 'C06', L + 'rsa_single_checks.py',
     'weak = gmpy.bit_length(n) < 2048', 'weak = gmpy.bit_length(n) <= 2048'),
    ('c06-roca-prime', 'C06', L + 'roca.py',
     '149, 151, 157, 163, 167, 173)\n  F4', '149, 151, 157, 163, 173)\n  F4'),
    ('c06-fingerprint', 'C06', L + 'rsa_single_checks.py',
     'hexdigest()[20:]', 'hexdigest()[:20]'),
    ('c06-range', 'C06', L + 'ec_util.py',
     'if x < 0 or x > (self.mod - 1) or y < 0 or y > (self.mod - 1):',
     'if x < 0 or x > self.mod or y < 0 or y > self.mod:'),
    ('c06-keypair-seed', 'C06', L + 'rsa_single_checks.py',
     'seed[metadata[i]] = metadata[i + 1]',
     'seed[metadata[i] - 1] = metadata[i + 1]'),
    ('c06-exponent', 'C06', L + 'rsa_single_checks.py',
     '      if e != 65537:', '      if e % 65536 != 1:'),
    # C07
    ('c07-cf-bound', 'C07', L + 'rsa_single_checks.py',
     'bound: Optional[int] = 2**48', 'bound: Optional[int] = 2**8'),
    ('c07-n1-bound', 'C07', L + 'rsa_aggregate_checks.py',
     'gcd_bound: int = 2**128', 'gcd_bound: int = 2**12'),
    ('c07-lhw-threshold', 'C07', L + 'rsa_util.py',
     'threshold_weak = n.bit_length() - 12', 'threshold_weak = n.bit_length() + 40'),
    ('c07-biased-all', 'C07', L + 'ecdsa_sig_checks.py',
     "        if i in issuer_dlogs:\n          dlog = format(int(issuer_dlogs[i]), \"x\")\n          logging.warning(\n              \"Check biased nonce",
     "        if issuer_dlogs and i not in issuer_dlogs:\n          issuer_dlogs[i] = list(issuer_dlogs.values())[0]\n        if i in issuer_dlogs:\n          dlog = format(int(issuer_dlogs[i]), \"x\")\n          logging.warning(\n              \"Check biased nonce"),
    # C08
    ('c08-windows', 'C08', L + 'ecdsa_sig_checks.py',
     'for size in (24, 48, 120):', 'for size in (24,):'),
    ('c08-w', 'C08', L + 'hidden_number_problem.py',
     "      else:\n        w = 2**32\n    elif bias == Bias.COMMON_POSTFIX:",
     "      else:\n        w = 2**8\n    elif bias == Bias.COMMON_POSTFIX:"),
    ('c08-slice', 'C08', L + 'ecdsa_sig_checks.py',
     'hnp.HiddenNumberProblem(a[i:i + size], b[i:i + size], None,',
     'hnp.HiddenNumberProblem(a[:size], b[i:i + size], None,'),
    ('c08-u2f-basis', 'C08', L + 'cr50_u2f_weakness.py',
     'basis = [0x1010101 << j', 'basis = [0x101 << j'),
    ('c08-constants', 'C08', L + 'hidden_number_problem.py',
     "      yield a, b, constant_list[:num_constants], w\n    elif len(a) == min_signatures - 1:",
     "      yield a, b, constant_list[:1], w\n    elif len(a) == min_signatures - 1:"),
    # C09
    ('c09-shift', 'C09', L + 'ec_util.py',
     '    if shift > 0:\n      h >>= shift', '    if shift >= 8:\n      h >>= shift'),
    ('c09-hlen', 'C09', L + 'ec_util.py',
     'z = curve.TransformOrderLen(h, len(sig.message_hash) * 8)',
     'z = curve.TransformOrderLen(h, h.bit_length())'),
    ('c09-a', 'C09', L + 'ec_util.py',
     '    a = z * si % self.n\n', '    a = z * s % self.n\n'),
    ('c09-int2bytes', 'C09', L + 'util.py',
     '(int_val.bit_length() + 7) // 8', 'int_val.bit_length() // 8 + 1'),
    # C10
    ('c10-giant', 'C10', L + 'ec_util.py',
     'giant_steps = 2 + n // t', 'giant_steps = 1 + n // t'),
    ('c10-t', 'C10', L + 'ec_util.py',
     't = 2 * table_size - 1', 't = 2 * table_size + 1'),
    # (deriving t from the cached table is correct; deriving only the number
    # of giant steps from it is not)
    ('c10-stale-table', 'C10', L + 'ec_util.py',
     'giant_steps = 2 + n // t',
     'giant_steps = 2 + n // (2 * self._table_size - 1)'),
    ('c10-shifts', 'C10', L + 'ec_util.py',
     'for j in range(0, bits - 31, 8):', 'for j in range(0, bits - 39, 8):'),
    ('c10-dup-continue', 'C10', L + 'ec_util.py',
     "        if x is None:\n          continue  # key is a duplicate\n        if x in self._table:",
     "        if x in self._table:"),
    ('c10-key2', 'C10', L + 'ec_util.py',
     'key2 = j - len(other_points)', 'key2 = j - len(other_points) + 1'),
    # C11
    ('c11-batchadd-zero', 'C11', L + 'ec_util.py',
     "    for i, v in enumerate(tmp):\n      if v:\n        t = v * (p[1] - points[i][1]) % self.mod\n        x = (t * t - p[0] - points[i][0]) % self.mod\n        y = (t * (p[0] - x) - p[1]) % self.mod\n        res[i] = (x, y)",
     "    for i, v in enumerate(tmp):\n      if v is not None or points[i] == p:\n        v = v or 1\n        t = v * (p[1] - points[i][1]) % self.mod\n        x = (t * t - p[0] - points[i][0]) % self.mod\n        y = (t * (p[0] - x) - p[1]) % self.mod\n        res[i] = (x, y)"),
    ('c11-mask-step', 'C11', L + 'ec_util.py',
     'mask = sum(1 << j for j in range(0, self.n.bit_length(), steps))',
     'mask = sum(1 << j for j in range(0, self.n.bit_length() - 1, steps))'),
    # ((x, p - y) differs from (x, -y % p) only for y == 0: no such point on
    # a prime-order curve)
    ('c11-negate', 'C11', L + 'ec_util.py',
     '    return (x, -y % self.mod)', '    return (x, -y)'),
    ('c11-jacobian-s', 'C11', L + 'ec_util.py',
     "      if s1 != s2:\n        return INFINITY_JACOBIAN",
     "      if s1 != s2 and s1 + s2 != mod:\n        return INFINITY_JACOBIAN"),
    ('c11-const', 'C11', L + 'ec_util.py',
     '"5ac635d8aa3a93e7b3ebbd55769886bc651d06b0cc53b0f63bce3c3e27d2604b"',
     '"5ac635d8aa3a93e7b3ebbd55769886bc651d06b0cc53b0f63bce3c3e27d2604c"'),
    # C12
    # (ChiSquare's default k is dead code: every caller passes k)
    ('c12-longestrun-dof', 'C12', R + 'nist_suite.py',
     '      k = v_upper - v_lower\n', '      k = v_upper - v_lower + 1\n'),
    ('c12-template-variance', 'C12', R + 'nist_suite.py',
     'variance = n * (1 / 2**m - (2 * m - 1) / 2**(2 * m))',
     'variance = n * (1 / 2**m - (2 * m + 1) / 2**(2 * m))'),
    ('c12-longestrun-class', 'C12', R + 'nist_suite.py',
     'idx = max(0, min(v_upper, x) - v_lower)',
     'idx = max(0, min(v_upper, x + 1) - v_lower)'),
    ('c12-apen', 'C12', R + 'nist_suite.py',
     'p_value = util.Igamc(2**(m - 1), chi_square / 2)',
     'p_value = util.Igamc(2**m, chi_square / 2)'),
    ('c12-universal-c', 'C12', R + 'nist_suite.py',
     'c = (0.7 - 0.8 / block_size', 'c = (0.8 - 0.8 / block_size'),
    ('c12-excursions', 'C12', R + 'nist_suite.py',
     "  if excursions >= 500:\n    for x in range(-max_state, max_state + 1):",
     "  if excursions > 500:\n    for x in range(-max_state, max_state + 1):"),
    ('c12-table-digit', 'C12', R + 'nist_suite.py',
     '[0.1174, 0.2430, 0.2493, 0.1752, 0.1027, 0.1124]',
     '[0.1174, 0.2430, 0.2493, 0.1752, 0.1037, 0.1114]'),
    ('c12-blockfreq-min', 'C12', R + 'nist_suite.py',
     "  if n < 100:\n    raise InsufficientDataError(\"Not enough input\")",
     "  if n < 99:\n    raise InsufficientDataError(\"Not enough input\")"),
    # (F22 reverted)
    ('c12-universal-blocksize', 'C12', R + 'nist_suite.py',
     'block_size = max(size for (size, bound) in min_n.items() if bound <= n)',
     'block_size = min(size for (size, bound) in min_n.items() if bound <= n)'),
    # C13
    ('c13-fail-le', 'C13', R + 'random_test_suite.py',
     'if pval < self.p_value_fail:', 'if pval <= self.p_value_fail:'),
    ('c13-repeat-le', 'C13', R + 'random_test_suite.py',
     'if repeat_prob < pval:', 'if repeat_prob <= pval:'),
    ('c13-fisher', 'C13', R + 'util.py',
     'return Igamc(len(pvalues), s)', 'return Igamc(len(pvalues) / 2, s)'),
    ('c13-any-all', 'C13', R + 'random_test_suite.py',
     'return any(state == State.FAILED for state in self.state.values())',
     'return bool(self.state) and all(state == State.FAILED for state in self.state.values())'),
    ('c13-training', 'C13', R + 'lattice_suite.py',
     'training_size = min(72, len(sample) * 2 // 3)',
     'training_size = min(8, len(sample) * 2 // 3)'),
    ('c13-runs-inflate', 'C13', R + 'nist_suite.py',
     'p_value = math.erfc(abs(v_obs - 2 * n * pp) / (2 * math.sqrt(2 * n) * pp))',
     'p_value = math.erfc(abs(v_obs - 2 * n * pp) / (math.sqrt(2 * n) * pp))'),
    # C14
    ('c14-carry', 'C14', R + 'cc_util/berlekamp_massey.cc',
     '        carry_c ^= carry_a;\n', ''),
    ('c14-tc', 'C14', R + 'cc_util/berlekamp_massey.cc',
     '      tc = sb;\n', '      tc = sc;\n'),
    ('c14-tail', 'C14', R + 'cc_util/berlekamp_massey.cc',
     "  for (int i = n0; i < n; i++) {", "  for (int i = n0; i <= n; i++) {"),
    ('c14-portable-cond', 'C14', R + 'cc_util/berlekamp_massey.cc',
     "      if (2 * lfsr_len <= i) {\n        lfsr_len = i + 1 - lfsr_len;\n        sb.swap(sc);",
     "      if (2 * lfsr_len < i) {\n        lfsr_len = i + 1 - lfsr_len;\n        sb.swap(sc);"),
    ('c14-python-native', 'C14', R + 'berlekamp_massey.py',
     '      if 2 * deg_c <= n:\n        sb, sc = sc, sb',
     '      if 2 * deg_c < n:\n        sb, sc = sc, sb'),
    ('c14-lfsrcount', 'C14', R + 'berlekamp_massey.py',
     'return int(2 * 4**(m - 1))', 'return int(2 * 4**m)'),
    ('c14-range', 'C14', R + 'cc_util/berlekamp_massey.cc',
     'if (n < 0 || (size_t)n > 8 * seq.size()) {',
     'if (n < 0 || (size_t)n > 8 * seq.size() + 8) {'),
    # C15
    ('c15-tail', 'C15', R + 'util.py',
     "      s ^= ba[-1] << m3\n      for j in range(length % 8):",
     "      s ^= ba[-1] << m3\n      for j in range(length % 8 - 1):"),
    ('c15-wrap', 'C15', R + 'util.py',
     '    for i in range(1, m):\n      x = (w >> i) & mask',
     '    for i in range(m):\n      x = (w >> i) & mask'),
    ('c15-scatter', 'C15', R + 'util.py',
     'offset = (len(bits) - 1) % m', 'offset = len(bits) % m'),
    ('c15-runs', 'C15', R + 'util.py',
     'if length and s >> (length - 1) == 0:',
     'if length and s >> (length - 1) == 1:'),
    # (the step size only changes the table size: performance, not the rank)
    ('c15-rank-table', 'C15', R + 'util.py',
     '          tab[(b >> c_lower) & new_mask] = b',
     '          tab[(b >> c_lower) & mask] = b'),
    ('c15-reverse', 'C15', R + 'util.py',
     'c = b >> (-length % 8)', 'c = b >> (length % 8)'),
    ('c15-rank-swap', 'C15', R + 'util.py',
     "          m[i] = m[rank]\n          m[rank] = row_i", "          m[rank] = row_i"),
    # C16
    ('c16-or', 'C16', L + 'util.py',
     'old_test_result.result |= test_result.result  # update',
     'old_test_result.result = test_result.result  # update'),
    ('c16-max', 'C16', L + 'util.py',
     "    old_test_result.severity = max(old_test_result.severity,\n                                   test_result.severity)",
     "    old_test_result.severity = test_result.severity"),
    ('c16-version', 'C16', L + 'util.py',
     "  if not test_info.paranoid_lib_version:\n",
     "  if not test_info.paranoid_lib_version and test_result.result:\n"),
    ('c16-factors', 'C16', L + 'util.py',
     "  if old_set:\n    factors = factors.union(old_set)  # update",
     "  if old_set and len(old_set) > 2:\n    factors = factors.union(old_set)  # update"),
    ('c16-anyweak', 'C16', L + 'paranoid.py',
     '    any_weak |= res\n', '    any_weak = res\n'),
    ('c16-issuer-severity', 'C16', L + 'ecdsa_sig_checks.py',
     'test_result.severity = util.GetHighestSeverity(key.test_info)',
     'test_result.severity = paranoid_pb2.SeverityType.SEVERITY_HIGH'),
    # C17
    ('c17-test-result-once', 'C17', L + 'rsa_single_checks.py',
     "    any_weak = False\n    for key in artifacts:\n      test_result = self._CreateTestResult()\n      n = gmpy.mpz(util.Bytes2Int(key.rsa_info.n))\n      factors = rsa_util.FermatFactor(n, self._max_steps)",
     "    any_weak = False\n    test_result = self._CreateTestResult()\n    for key in artifacts:\n      n = gmpy.mpz(util.Bytes2Int(key.rsa_info.n))\n      factors = rsa_util.FermatFactor(n, self._max_steps)"),
    ('c17-last-modulus', 'C17', L + 'rsa_single_checks.py',
     "      weak, factors = rsa_util.Pollardpm1(n, self._m)\n",
     "      weak, factors = rsa_util.Pollardpm1(n, self._m)\n      if getattr(self, '_seen_weak', False) and not weak:\n        weak = gmpy.gcd(n - 1, self._m) >= 2**40\n      self._seen_weak = weak or getattr(self, '_seen_weak', False)\n"),
    ('c17-keys-partition', 'C17', L + 'ec_single_checks.py',
     "      for i, key in enumerate(keys):\n        test_result = self._CreateTestResult()\n        if discrete_logs[i] is not None:",
     "      for i, key in enumerate(keys):\n        key = artifacts[i] if len(artifacts) == len(keys) + 1 else key\n        test_result = self._CreateTestResult()\n        if discrete_logs[i] is not None:"),
    # C18
    ('c18-no-sigs', 'C18', L + 'ecdsa_sig_checks.py',
     "      sigs = [s for s in artifacts if s.issuer_key_info.curve_type == curve_id]\n      if not sigs:\n        continue\n      pks = _MapIssuerSigIndexes(sigs)\n      guesses = set()\n      for _, idxs in pks.items():\n        # Exclude duplicate signatures from the actual processing\n        unique_vals = list({\n            ec_util.ECDSAValues(sigs[idx].ecdsa_sig_info, curve) for idx in idxs\n        })\n        # Sliding window.",
     "      sigs = [s for s in artifacts if s.issuer_key_info.curve_type == curve_id]\n      pks = _MapIssuerSigIndexes(sigs)\n      guesses = set()\n      r1, s1, z1 = ec_util.ECDSAValues(sigs[0].ecdsa_sig_info, curve)\n      for _, idxs in pks.items():\n        # Exclude duplicate signatures from the actual processing\n        unique_vals = list({\n            ec_util.ECDSAValues(sigs[idx].ecdsa_sig_info, curve) for idx in idxs\n        })\n        # Sliding window."),
    ('c18-small-n-gate', 'C18', L + 'rsa_util.py',
     "  if n % 8 != 1:\n    return None\n  # Computes a square root r0 modulo 2**k",
     "  if n % 4 != 1:\n    return None\n  # Computes a square root r0 modulo 2**k"),
    ('c18-unknown-curve', 'C18', L + 'ec_single_checks.py',
     "      if curve is None:\n        # Skipping the test. CheckValidECKey already checks this.\n        continue\n",
     ""),
    ('c18-double-y0', 'C18', L + 'ec_util.py',
     "    if y % self.mod == 0:\n      # A point with y == 0 has order 2 (or is not on the curve at all).\n      return INFINITY\n",
     ""),
    # C19
    ('c19-newton', 'C19', L + 'ntheory_util.py',
     'a = gmpy.f_mod_2exp(a * (2 - a * n), t)',
     'a = gmpy.f_mod_2exp(a * (3 - a * n), t)'),
    ('c19-invsqrt-t', 'C19', L + 'ntheory_util.py',
     't = min(k, 2 * t - 2)', 't = min(k, 2 * t - 1)'),
    ('c19-roots', 'C19', L + 'ntheory_util.py',
     "      gmpy.f_mod_2exp((2 ** (k - 1) - r), k),\n      gmpy.f_mod_2exp((2 ** (k - 1) + r), k),\n",
     ""),
    ('c19-divmod', 'C19', L + 'ntheory_util.py',
     '  return x, y - d\n', '  return x, y\n'),
    ('c19-sieve', 'C19', L + 'ntheory_util.py',
     'for i in range(2, gmpy.isqrt(n) + 1):', 'for i in range(2, gmpy.isqrt(n)):'),
    ('c19-root-verify', 'C19', L + 'small_roots.py',
     "    y = f(rx)\n    if y != 0 and n % y == 0:\n      return rx",
     "    return rx"),
    ('c19-irwin-hall', 'C19', R + 'util.py',
     '  elif n > 36:\n', '  elif n > 10:\n'),
    ('c19-echelon', 'C19', L + 'linalg_util.py',
     "        b.insert(nrows - 1, b.pop(i))\n      a.insert(nrows - 1, a.pop(i))",
     "        b.insert(nrows, b.pop(i))\n      a.insert(nrows, a.pop(i))"),
    # C20
    ('c20-mwc-mask', 'C20', R + 'rng.py',
     "    res = int.from_bytes(ba, \"little\")\n    if len(ba) * 8 != n:\n      res &= (1 << n) - 1\n    return res\n\n\nclass NumpyRng",
     "    res = int.from_bytes(ba, \"little\")\n    return res\n\n\nclass NumpyRng"),
    ('c20-shake-shift', 'C20', R + 'rng.py',
     "    seq = int.from_bytes(shake.digest((n + 7) // 8), \"little\")  # pylint: disable=too-many-function-args\n    if n % 8 != 0:\n      seq >>= -n % 8",
     "    seq = int.from_bytes(shake.digest((n + 7) // 8), \"little\")  # pylint: disable=too-many-function-args\n    if n % 8 != 0:\n      seq >>= n % 8"),
    ('c20-java-byte', 'C20', R + 'rng.py',
     "      ba[0] &= (1 << (n % 8)) - 1\n    return int.from_bytes(ba, \"big\")",
     "      ba[-1] &= (1 << (n % 8)) - 1\n    return int.from_bytes(ba, \"big\")"),
    ('c20-mt-global', 'C20', R + 'rng.py',
     "    random.seed(seed)\n    return random.getrandbits(n)",
     "    if n % 64:\n      random.seed(seed)\n    return random.getrandbits(n)"),
]


def run_one(m, tier):
  mid, prop, rel, old, new = m
  scratch = '/tmp/vp-mut-%s-%d' % (mid, os.getpid())
  t0 = time.time()
  try:
    shutil.copytree('/repo', scratch, ignore=shutil.ignore_patterns('.git'))
    path = os.path.join(scratch, rel)
    src = open(path).read()
    if src.count(old) != 1:
      return {'id': mid, 'property': prop, 'status': 'stale',
              'note': 'pattern occurs %d times' % src.count(old)}
    open(path, 'w').write(src.replace(old, new))
    env = dict(os.environ, VERIF_REPO=scratch, VERIF_JOBS=os.environ.get(
        'VERIF_JOBS', '8'), VERIF_SELFTEST='1')
    p = subprocess.run([sys.executable, '-m', 'vp.run', prop, '--tier', tier],
                       cwd=V, env=env, capture_output=True, text=True,
                       timeout=3600)
    lines = [l for l in p.stdout.splitlines() if l.startswith(
        ('VIOLATION', '  mechanism', 'INCONCLUSIVE', 'HELD', 'VIOLATED'))]
    status = 'caught' if p.returncode == 1 and any(
        l.startswith('VIOLATION') for l in lines) else (
            'inconclusive' if p.returncode == 2 else 'MISSED')
    return {'id': mid, 'property': prop, 'status': status,
            'exit': p.returncode, 'wall_s': round(time.time() - t0, 1),
            'mechanisms': [l.strip()[:160] for l in lines if 'mechanism' in l][:3]}
  finally:
    shutil.rmtree(scratch, ignore_errors=True)


def main():
  ap = argparse.ArgumentParser()
  ap.add_argument('--only')
  ap.add_argument('--ids')
  ap.add_argument('--par', type=int, default=2)
  ap.add_argument('--tier', default='quick')
  a = ap.parse_args()
  ms = MUTANTS
  if a.only:
    ms = [m for m in ms if m[1] in a.only.split(',')]
  if a.ids:
    ms = [m for m in ms if m[0] in a.ids.split(',')]
  out_path = os.path.join(V, 'selftest_results.json')
  prev = {}
  if os.path.exists(out_path):
    prev = {r['id']: r for r in json.load(open(out_path))['results']}
  with concurrent.futures.ThreadPoolExecutor(a.par) as ex:
    for r in ex.map(lambda m: run_one(m, a.tier), ms):
      prev[r['id']] = r
      print(json.dumps(r), flush=True)
  # evidence files were overwritten by mutant runs: the caller re-runs checks
  json.dump({'_doc': 'tools/selftest.py results: deliberate breaks applied to '
             'a scratch copy of /repo, property quick check must exit 1',
             'results': sorted(prev.values(), key=lambda r: r['id'])},
            open(out_path, 'w'), indent=1)
  bad = [r for r in prev.values() if r['status'] != 'caught']
  print('%d mutants, %d not caught' % (len(prev), len(bad)))


if __name__ == '__main__':
  main()
