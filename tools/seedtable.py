#!/usr/bin/env python3
"""Prints the markdown table of DESIGN.md section 9.2 from seeded/*/meta.json."""
import glob
import json
import os

V = os.path.dirname(os.path.dirname(os.path.abspath(__file__)))
print('| id | property | file | caught by | first outcome |')
print('|---|---|---|---|---|')
for p in sorted(glob.glob(os.path.join(V, 'seeded', '*', 'meta.json'))):
  m = json.load(open(p))
  v = m.get('verification', {})
  caught = sorted(k.split('_')[1] for k, x in v.items() if k.startswith(
      'check_') and isinstance(x, dict) and x.get('caught'))
  files = ', '.join(os.path.basename(f) for f in m.get('files', []))
  fo = (m.get('first_outcome') or '').replace('|', '/').replace('\n', ' ')
  fo = fo.replace("caught by the property's quick check as it was when the "
                  "change arrived", 'caught as first written')
  print('| %s | %s | %s | %s | %s |' % (m['id'], m['property'], files,
                                        ', '.join(caught), fo))
