#!/usr/bin/env python3
"""Runs every check of MANIFEST.json on the unchanged tree for several seeds
and records exit codes / wall time (false-alarm sweep, DESIGN section 6).

  /venv/bin/python tools/sweep.py --tier quick --seeds 0,1,2 [--only C03,C04]
"""
import argparse
import json
import os
import subprocess
import time

V = os.path.dirname(os.path.dirname(os.path.abspath(__file__)))
ap = argparse.ArgumentParser()
ap.add_argument('--tier', default='quick')
ap.add_argument('--seeds', default='0,1,2')
ap.add_argument('--only')
a = ap.parse_args()
man = json.load(open(os.path.join(V, 'MANIFEST.json')))
out_path = os.path.join(V, 'sweep_results.json')
res = json.load(open(out_path)) if os.path.exists(out_path) else {}
for seed in a.seeds.split(','):
  for c in man['checks']:
    pid = c['property_id']
    if a.only and pid not in a.only.split(','):
      continue
    cmd = c['quick_cmd'] if a.tier == 'quick' else c['thorough_cmd']
    t0 = time.time()
    p = subprocess.run(cmd, shell=True, cwd=V, capture_output=True, text=True,
                       env=dict(os.environ, VERIF_SEED=seed))
    last = [l for l in p.stdout.splitlines() if l.startswith(
        ('HELD', 'VIOLATED', 'INCONCLUSIVE', 'VIOLATION'))]
    key = '%s/%s/seed%s' % (pid, a.tier, seed)
    res[key] = {'exit': p.returncode, 'wall_s': round(time.time() - t0, 1),
                'lines': [l[:300] for l in last][:6]}
    print(key, p.returncode, res[key]['wall_s'], flush=True)
    # (merge with what other sweep processes wrote in the meantime)
    cur = json.load(open(out_path)) if os.path.exists(out_path) else {}
    cur[key] = res[key]
    res = cur
    json.dump(res, open(out_path, 'w'), indent=1, sort_keys=True)
bad = {k: v for k, v in res.items() if v['exit'] != 0}
print('non-zero exits:', json.dumps(bad, indent=1) if bad else 'none')
