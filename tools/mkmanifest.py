#!/usr/bin/env python3
"""Regenerates MANIFEST.json from the table below (keeps it schema-valid)."""
import json
import os

V = os.path.dirname(os.path.dirname(os.path.abspath(__file__)))
PY = '/venv/bin/python'

# property -> (technique, level text, level note, design ref)
CLAIMED = {}
NOT_YET = {}


def claim(pid, technique, text, note):
  CLAIMED[pid] = (technique, text, note)


exec(open(os.path.join(V, 'tools', 'claims.py')).read())

props = [json.loads(l)['id'] for l in open(os.path.join(V, 'properties.jsonl'))]
checks = []
for pid in props:
  if pid not in CLAIMED:
    continue
  tech, text, note = CLAIMED[pid]
  checks.append({
      'property_id': pid,
      'quick_cmd': '%s -m vp.run %s --tier quick' % (PY, pid),
      'thorough_cmd': '%s -m vp.run %s --tier thorough' % (PY, pid),
      'evidence_file': 'evidence/%s.json' % pid,
      'replay_cmd_template': '%s -m vp.run %s --replay {path}' % (PY, pid),
      'engine': 'vp',
      'level_claimed': {'category': 'exploration', 'text': text,
                        'design_ref': 'DESIGN.md section 4, %s' % pid},
      'level_note': note,
      'technique': tech,
  })
manifest = {
    'version': 1,
    'setup_cmd': '%s -m vp.setup' % PY,
    'hooks': {
        'guard': 'PARANOID_CRYPTO_VERIF',
        'enable': 'no source hooks are needed: all observation points are '
                  'reachable from outside (module/class attributes, '
                  'caller-owned protobufs, list subclasses); checks import '
                  '/repo\'s working tree directly (VERIF_REPO overrides the '
                  'path) and synthesise the generated pb2 / native modules '
                  'from the tree\'s own .proto and .cc sources at run time',
        'baseline_off_cmd': 'cd /repo && /venv/bin/python -m pytest -ra -q -p '
                            'no:cacheprovider --timeout=900 '
                            '--continue-on-collection-errors',
        'source_commits': [],
        'add_only': True,
    },
    'engines': [{
        'name': 'vp', 'path': 'vp/',
        'serves_properties': [c['property_id'] for c in checks],
        'kind_free_text': 'runtime monitoring: contracts, boundary observers, '
                          'reference-model and differential monitors, rate '
                          'monitors, compiler sanitizers for the native code',
    }],
    'checks': checks,
    'not_applicable': [{'property_id': p, 'reason': NOT_YET.get(
        p, 'check not built yet in this session (planned, see DESIGN.md)')}
                       for p in props if p not in CLAIMED],
    'notes': 'All checks: /venv/bin/python -m vp.run <id> --tier quick|thorough; '
             'exit 0 held, 1 VIOLATION, 2 inconclusive. VERIF_SEED selects the '
             'workload stream. Known findings: known_findings.json.',
}
json.dump(manifest, open(os.path.join(V, 'MANIFEST.json'), 'w'), indent=1)
print('claimed', [c['property_id'] for c in checks])
