claim('C19', 'reference-model monitors (defining relations, Fraction/mpmath '
      'models) around the real helpers; rate monitor for planted small roots',
      'Every call the workload makes to the 2-adic, continued-fraction, '
      'division, sieve, product-tree, linear-solver, small-root and statistics '
      'helpers is checked against its defining relation; exhaustive for k<=12 '
      '(quick 10), tiny matrices, small sieve/division ranges; sampled '
      'elsewhere. Held-on-K-executions, K in evidence.',
      'Trusted: Python int/Fraction arithmetic, mpmath, the SHAKE workload '
      'stream. Small-root completeness only as miss rate in calibrated '
      'regimes.')
