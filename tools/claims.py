claim('C19', 'reference-model monitors (defining relations, Fraction/mpmath '
      'models) around the real helpers; rate monitor for planted small roots',
      'Every call the workload makes to the 2-adic, continued-fraction, '
      'division, sieve, product-tree, linear-solver, small-root and statistics '
      'helpers is checked against its defining relation; exhaustive for k<=12 '
      '(quick 10), tiny matrices, small sieve/division ranges; sampled '
      'elsewhere. Held-on-K-executions, K in evidence.',
      'Trusted: Python int/Fraction arithmetic, mpmath, the SHAKE workload '
      'stream. Small-root completeness only as miss rate in calibrated '
      'regimes.')
claim('C11', 'reference-model monitor: every public EcCurve operation executed '
      'next to a textbook affine group law; OpenSSL cross-check of k*G',
      'All pairs of points and all scalars on tiny prime-order curves '
      '(exhaustive), all mixtures of special cases in batched operations over '
      'a 12-point alphabet, edge scalars and operands on the nine named '
      'curves, and the curve constants (non-singular, p and n prime, G on '
      'curve, n*G = infinity, Hasse).',
      'Trusted: the affine model over Python ints, gmpy2 primality, OpenSSL. '
      'Named curves are sampled, not enumerated.')
claim('C10', 'ground-truth monitor around BatchDL / ExtendedBatchDL / '
      'BatchDLOfDifferences and the two check classes, with call histories '
      'on one curve object',
      'Every x in [0, bound) on tiny curves for all listed bounds and list '
      'lengths; histories that leave larger/equal/smaller cached tables; '
      'giant-step boundary logs on named curves; all structured private-key '
      'forms on all nine curves; pairs at every distance class for several '
      'max_diff.',
      'Ground truth = points built as x*G by the model. A congruent log is '
      'accepted. Default max_diff 2^24 only in the thorough tier.')
claim('C15', 'reference-model monitor (definitions on Python strings) and '
      'fast/slow path differential',
      'Exhaustive over all strings of length <= 16 (quick 11) x all m; both '
      'sides of every FrequencyCount fast-path threshold up to m = 10; all '
      'tiny matrices and sampled matrices across the 50/32/256/8192-row '
      'thresholds for all three rank routines.',
      'Definitions evaluated on Python str; the m >= 23 guard of '
      'FrequencyCount is out of reach (needs > 4*10^8 bits).')
claim('C14', 'compiler sanitizers (ASan+UBSan+libstdc++ assertions), libFuzzer '
      'and valgrind memcheck on both compile-time variants built from the '
      'working tree; definitional oracle (Gaussian elimination) next to all '
      'implementations',
      'All sequences of length 0..20 (quick 16) in both C++ variants under '
      'sanitizers; lengths 0..1100 with structured sequences through all '
      'seven entry points; constructed known complexities up to 2^17 bits; '
      'true counts for LfsrCount/LfsrLogProbability.',
      'Oracle = solvability of the LFSR linear system (C++), cross-checked by '
      'an independent Python implementation for n <= 10. Sanitizers see only '
      'reached paths.')
claim('C20', 'range contract, repetition/interleaving history monitor, stream '
      'models (java.util.Random+BigInteger, truncated LCG)',
      'Every registered generator for every n in 1..300 (thorough 1..2048) '
      'plus residues mod 8/32/64 and larger n, six fixed and random seeds, '
      're-issued in shuffled order after other generators ran.',
      'Generators without a published stream model are only range- and '
      'purity-checked. Known findings F5, F5b.')
claim('C03', 'naive O(N^2) gcd reference model next to BatchGCD / CheckGCD / '
      'CheckGCDN1; runtime contract on ExtendedProductTree',
      'Every batch size 0..130 (thorough 0..520) with several dense, nested, '
      'duplicate, all-equal and large-modulus value sets, permutations, the '
      'optional extra product and four gcd bounds; verdict and recorded '
      'factor compared per key.',
      'Model = math.gcd with an explicit product of the other distinct '
      'values.')
claim('C04', 'generator-side ground truth next to CheckFermat, '
      'CheckHighAndLowBitsEqual, CheckSmallUpperDifferences, CheckUnseededRand',
      'Fermat moduli on both sides of each step bound (exact step index '
      'computed), the admissible (r, s) grid for shared low/high bits, all six '
      'documented differences for prime sizes 384..1024 (thorough 2048), every '
      'listed unseeded output with its two top-bit variants.',
      'Prime sizes sampled on a grid. Cofactor of unseeded primes sized so '
      'that the modulus selects that list.')
claim('C05', 'generator-side ground truth; per-family miss-rate monitor for the '
      'lattice/search heuristics, per-execution for the Pollard clause',
      'All default word sizes, custom pattern-size lists, all limb/pattern '
      'cells with denominator <= bits/10, both-patterned and both-low-weight '
      'primes, shared smooth p-1/q-1 with one or both smooth.',
      'Heuristic families: run fails when misses are implausible for a miss '
      'rate <= 2% (alpha 1e-7) and any isolated miss is a VIOLATION unless '
      'listed. Known finding F19 (clustered low-weight primes).')
claim('C01', 'boundary observer on the protobufs + runtime contracts on every '
      'factoring helper and on util.AttachFactors',
      'Mixed batches (healthy, primes, squares, cubes, even, powers of two, '
      'every weak family, nested/duplicate moduli) through every registered '
      'RSA check, through instances with hostile constructor parameters and '
      'through CheckAllRSA; one division per recorded value.',
      'Division is the oracle. Moduli < 2^63 excluded. Expensive families '
      '(low Hamming weight, smooth) are capped per shard.')
claim('C02', 'boundary observer + contracts on BatchDL/ExtendedBatchDL; logs '
      're-multiplied by OpenSSL/model; relation strings parsed and evaluated',
      'Structured, near-range and random EC keys on all nine curves; '
      'signature batches built to provoke wrong guesses (healthy, arbitrary '
      'r/s, guessable issuer keys, biased A next to healthy B, signatures '
      'valid under A but labelled B, U2F, GMP/Java LCG, mixed curves) through '
      'all seven nonce checks.',
      'OpenSSL for k*G (cross-checked against the model). 2^-256 coincidences '
      'ignored.')
claim('C06', 'independent evaluation of each closed-form criterion next to the '
      'check class, both directions',
      'Boundary moduli/exponents and encodings; CRT-built moduli meeting all, '
      'or all but one, of the 39/48 residue conditions; custom Storage '
      'deny-lists and keypair tables; all 768 covered keypair seeds '
      'regenerated; all curve identifiers and coordinate mutations; synthetic '
      'cofactor-4 curve for the subgroup clause.',
      'Keypair workload uses the repository\'s own generator emulation '
      '(common-mode assumption recorded in evidence).')
claim('C09', 'model signer with known nonce + OpenSSL as independent signer '
      '(random and RFC 6979 deterministic nonces) + conversion round trips',
      'All nine curves, edge and random d/k, hash lengths 0..80 bytes, '
      'leading-zero encodings; for OpenSSL signatures the recovered nonce '
      'must reproduce r and, for deterministic signing, equal the RFC 6979 '
      'nonce computed by an independent HMAC-DRBG transcription.',
      'OpenSSL and hashlib/hmac trusted.')
claim('C16', 'offline history checker over boundary-observer snapshots with a '
      'sequential model of add-or-update semantics',
      'Random histories of 2..12 calls (single checks, repeated, entry points, '
      'subsets) on fresh and pre-annotated RSA/EC/ECDSA protobufs; exact '
      'clauses after entry points, monotone clauses after every call, '
      'issuer-key verdict against CheckAllEC on a fresh key.',
      'Documented severities frozen in spec/severities.json. max_diff 2^8.')
claim('C17', 'differential monitor: identical artifacts judged alone (fresh '
      'process), in batches, permuted, with healthy neighbours, after warm-up;'
      ' offline comparison of verdict records',
      'Seven contexts per artifact group for RSA, EC and ECDSA artifacts incl. '
      'table-edge private keys, duplicates, shared factors; individually '
      'judging checks compared across all contexts, jointly judging ones '
      'across the batch contexts.',
      'Known finding F6 (over-reach zone) and F12s (sporadic lattice misses) '
      'are classified by mechanism.')
claim('C18', 'boundary observer: exception / non-bool return from any entry '
      'point or check class on grammar-generated hostile well-formed batches',
      'Batch sizes 0,1,2,3 and larger for every check class and entry point; '
      'degenerate moduli and exponents; all curve ids; coordinates 0, p, x+p, '
      'huge, off-curve and their duplicates and re-encodings; signatures with '
      'edge r/s, empty and long hashes, invalid/unknown/shared issuer keys.',
      'r or s == 0 mod n outside the quantifier; hangs are inconclusive.')
claim('C07', 'generator-side ground truth (healthy by construction from a '
      'SHAKE-256 stream) + boundary observer after the all-checks entry '
      'points, alone and with weak neighbours',
      'Quick: 840 healthy RSA keys (2048/3072/4096), 400 EC keys on the eight '
      'strong curves, healthy signature batches of 1..18 signatures per '
      'curve, plus mixed batches with every weak family; thorough: ~20k RSA '
      'keys, 8k EC keys, batches up to 200 signatures.',
      'The claim is "no accusation in K artifacts" (K in evidence); the design '
      'false-positive rate is not measurable.')
claim('C08', 'generator-side ground truth (d and nonces known); per-regime '
      'miss-rate monitor calibrated on the unchanged tree (spec/regimes.json);'
      ' hard clauses per execution',
      'MSB / prefix / suffix / multiplied bias for widths 16..128 at margins '
      '1..2.2 on all curve classes, counts straddling the 24/48/120 windows, '
      'two-signature U2F batches on all curves with bits % 32 == 0, GMP '
      'lc_2exp nonces for all 16 shipped models; other issuers and curves '
      'interleaved, order shuffled, duplicates.',
      'Heuristic completeness only as miss rate per regime; gaps are '
      'region-keyed known finding F12, sporadic misses F12s. A wrong key or '
      'an accused foreign issuer is always a VIOLATION.')
claim('C12', 'reference-model monitor: independent transcription of SP 800-22 '
      'sections 2.1-2.15 (mpmath) evaluated next to every test; range '
      'contract; boundary, metamorphic and table monitors',
      'All strings of length <= 12 (quick 10) for Frequency/Runs/cusum range, '
      '8..11 for Serial/ApEn; random, constant-ish, periodic, one-sided, '
      'zero-ending, low-rank strings at every parameter threshold +-1 up to '
      '2^20 bits; oscillating walks with >= 500 cycles; optional parameters; '
      'complement/reverse/rotate invariances; exact derivation of all '
      'embedded tables.',
      'Model validated against the worked examples of SP 800-22. Spectral '
      'compared for even n only (the standard\'s n/2 is undefined for odd n). '
      'Universal for L = 6, 7. Known finding F13.')
claim('C13', 'history + executable model of the decision structure; binomial '
      'population monitor over p-values of seeded cryptographic generators; '
      'weak-generator monitor for every documented pair',
      'All scripted p-value histories of length <= 3 (thorough 4) over a '
      'threshold alphabet x shapes x levels x repetition minima; 96 (thorough '
      '768) sequences of 2^20 bits from SHAKE128/PCG64/Philox through every '
      'test; every documented (weak generator, test family, size) pair with '
      'several seeds through TestBitString.',
      'Population monitor power limited by S; see evidence. Known finding F20 '
      '(xorshift128+ vs LargeBinaryMatrixRank).')
