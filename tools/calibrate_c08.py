#!/usr/bin/env python3
"""Calibrates the C08 regime table on the *unchanged* tree and writes
spec/regimes.json (committed; never written by a check run).

  /venv/bin/python tools/calibrate_c08.py [seeds...]

Runs the thorough C08 workload for each seed, accumulates hits/misses per
regime and classifies: unmapped (< 20 trials), enforced (miss rate <= 2%),
gap (otherwise).  RECLASSIFY=1 only re-applies the rule to the stored counts."""
import json
import os
import subprocess
import sys

V = os.path.dirname(os.path.dirname(os.path.abspath(__file__)))
seeds = [int(s) for s in sys.argv[1:]] or [101, 102]
acc = {}
path = os.path.join(V, 'spec', 'regimes.json')
if os.path.exists(path) and (os.environ.get('MERGE') or
                             os.environ.get('RECLASSIFY')):
  acc = {k: {'n': v['n'], 'miss': v['miss']}
         for k, v in json.load(open(path))['regimes'].items()}
for s in ([] if os.environ.get('RECLASSIFY') else seeds):
  env = dict(os.environ, VERIF_SEED=str(s))
  subprocess.run(['/venv/bin/python', '-m', 'vp.run', 'C08', '--tier',
                  os.environ.get('TIER', 'thorough'), '--jobs',
                  os.environ.get('JOBS', '16')], cwd=V, env=env)
  ev = json.load(open(os.path.join(V, 'evidence', 'C08.json')))
  tab = [x for x in ev['coverage']['samples'] if isinstance(x, dict)
         and 'regime_table' in x][0]['regime_table']
  for k, v in tab.items():
    a = acc.setdefault(k, {'n': 0, 'miss': 0})
    a['n'] += v['n']
    a['miss'] += v['miss']
out = {}
for k, a in sorted(acc.items()):
  if k.startswith('gmp-lcg/'):
    continue
  rate = a['miss'] / a['n']
  status = 'unmapped' if a['n'] < 20 else \
      'enforced' if rate <= 0.02 else 'gap'
  out[k] = {'n': a['n'], 'miss': a['miss'], 'status': status}
json.dump({'_doc': 'C08 regime calibration on the unchanged tree (tools/'
           'calibrate_c08.py); regime = kind/curve class/width class/margin '
           'class', 'seeds': seeds, 'regimes': out},
          open(path, 'w'), indent=1, sort_keys=True)
print('wrote', path, {s: sum(1 for v in out.values() if v['status'] == s)
                      for s in ('enforced', 'gap', 'unmapped')})
