#!/usr/bin/env python3
"""Bookkeeping for independently written property-breaking changes (seeded/).

  tools/seeded.py add <id> <property> <agent worktree>   # copy patch+demo+notes
  tools/seeded.py verify <id> [--no-pytest]              # confirm + run check

verify: fresh scratch worktree of /repo HEAD under /tmp, demo must exit 0
before and 1 after `git apply patch.diff`, the pinned test suite must still
report 74 passed, then the property's quick check runs against the patched
scratch tree (VERIF_REPO) and must exit 1 with a VIOLATION line.  The scratch
worktree is removed afterwards.  Nothing is ever applied to /repo here.
"""
import json
import os
import re
import shutil
import subprocess
import sys
import time

V = os.path.dirname(os.path.dirname(os.path.abspath(__file__)))
PY = '/venv/bin/python'


def sh(cmd, cwd=None, env=None, timeout=3600):
  e = dict(os.environ)
  e.update(env or {})
  p = subprocess.run(cmd, cwd=cwd, env=e, capture_output=True, text=True,
                     timeout=timeout, shell=isinstance(cmd, str))
  return p.returncode, p.stdout + p.stderr


def add(sid, prop, wt):
  d = os.path.join(V, 'seeded', sid)
  os.makedirs(d, exist_ok=True)
  rc, diff = sh(['git', 'diff', '--', 'paranoid_crypto'], cwd=wt)
  open(os.path.join(d, 'patch.diff'), 'w').write(diff)
  for f in os.listdir(wt):
    if f.startswith('demo_') and f.endswith('.py'):
      shutil.copy(os.path.join(wt, f), os.path.join(d, 'demo.py'))
    if f == 'SEED_NOTES.md':
      shutil.copy(os.path.join(wt, f), os.path.join(d, 'SEED_NOTES.md'))
  meta = {'id': sid, 'property': prop, 'origin': 'independent sub-agent given '
          'only the property text and a private worktree',
          'files': sorted(set(re.findall(r'^\+\+\+ b/(\S+)', diff, re.M)))}
  json.dump(meta, open(os.path.join(d, 'meta.json'), 'w'), indent=1)
  print('added', sid, meta['files'])


def verify(sid, pytest=True, checks=None, tier='quick'):
  d = os.path.join(V, 'seeded', sid)
  meta = json.load(open(os.path.join(d, 'meta.json')))
  wt = '/tmp/seedchk-%s-%d' % (sid, os.getpid())
  sh(['git', '-C', '/repo', 'worktree', 'add', '--detach', wt, 'HEAD'])
  ran = {}
  try:
    demo = os.path.join(wt, 'demo.py')
    shutil.copy(os.path.join(d, 'demo.py'), demo)
    src = open(demo).read().replace('/tmp/wt-%s' % meta['property'], wt)
    open(demo, 'w').write(src)
    env = {'REPO': wt}
    rc0, out0 = sh([PY, 'demo.py'], cwd=wt, env=env)
    rca, outa = sh(['git', 'apply', os.path.join(d, 'patch.diff')], cwd=wt)
    rc1, out1 = sh([PY, 'demo.py'], cwd=wt, env=env)
    ran['demo_without_change_exit'] = rc0
    ran['patch_applies'] = rca == 0
    ran['demo_with_change_exit'] = rc1
    ran['demo_with_change_tail'] = out1.strip().splitlines()[-3:]
    if pytest:
      rc, out = sh('%s -m pytest -q -p no:cacheprovider --timeout=900 '
                   '--continue-on-collection-errors 2>&1 | tail -1' % PY, cwd=wt)
      ran['pytest_tail'] = out.strip()
    for prop in (checks or [meta['property']]):
      t0 = time.time()
      rc, out = sh([PY, '-m', 'vp.run', prop, '--tier', tier], cwd=V,
                   env={'VERIF_REPO': wt, 'VERIF_JOBS': os.environ.get(
                       'VERIF_JOBS', '8')})
      lines = [l.strip()[:300] for l in out.splitlines() if l.startswith(
          ('VIOLATION', '  mechanism', 'INCONCLUSIVE', 'HELD', 'VIOLATED',
           'KNOWN'))]
      ran['check_%s_%s' % (prop, tier)] = {
          'exit': rc, 'wall_s': round(time.time() - t0, 1),
          'caught': rc == 1 and any(l.startswith('VIOLATION') for l in lines),
          'lines': [l for l in lines if not l.startswith('KNOWN')][:6]}
  finally:
    sh(['git', '-C', '/repo', 'worktree', 'remove', '--force', wt])
    shutil.rmtree(wt, ignore_errors=True)
  meta.setdefault('verification', {}).update(ran)
  meta['verified_at_repo_head'] = sh(['git', '-C', '/repo', 'rev-parse',
                                      '--short', 'HEAD'])[1].strip()
  json.dump(meta, open(os.path.join(d, 'meta.json'), 'w'), indent=1)
  print(json.dumps(ran, indent=1))


if __name__ == '__main__':
  if sys.argv[1] == 'add':
    add(*sys.argv[2:5])
  else:
    args = [a for a in sys.argv[2:] if not a.startswith('--')]
    tier = 'thorough' if '--thorough' in sys.argv else 'quick'
    verify(args[0], pytest='--no-pytest' not in sys.argv,
           checks=args[1:] or None, tier=tier)
