"""Section-by-section transcription of NIST SP 800-22 rev 1a (sections 2.1 -
2.15) with the deviations documented in docs/randomness_tests.md.  Never
imports the repository.  Special functions from mpmath.

A sequence is a list `e` of 0/1 in sequence order (epsilon_1 first).  The
repository represents it as the integer whose bit i is epsilon_{i+1}.
"""
import math
from fractions import Fraction

import mpmath

mpmath.mp.dps = 30


def bits_of(seq, n):
  return [(seq >> i) & 1 for i in range(n)]


def igamc(a, x):
  if x <= 0:
    return 1.0       # NIST's cephes igamc: x <= 0 or a <= 0 -> 1.0
  return float(mpmath.gammainc(a, x, mpmath.inf, regularized=True))


def erfc(x):
  return float(mpmath.erfc(x))


def ncdf(x):
  return mpmath.ncdf(x)


def chi_pvalue(obs, probs, dof):
  n = sum(obs)
  chi = sum((mpmath.mpf(o) - n * p) ** 2 / (n * p) for o, p in zip(obs, probs))
  return igamc(mpmath.mpf(dof) / 2, chi / 2)


# 2.1
def frequency(e):
  n = len(e)
  s = sum(2 * b - 1 for b in e)
  return erfc(abs(s) / mpmath.sqrt(n) / mpmath.sqrt(2))


# 2.2 ; M is a free parameter (admissible: M >= 20, M > .01 n, N < 100)
def block_frequency(e, M):
  n = len(e)
  N = n // M
  chi = 0
  for i in range(N):
    pi = mpmath.mpf(sum(e[i * M:(i + 1) * M])) / M
    chi += (pi - mpmath.mpf(1) / 2) ** 2
  chi *= 4 * M
  return igamc(mpmath.mpf(N) / 2, chi / 2)


def block_frequency_admissible(n, M):
  return M >= 20 and M > 0.01 * n and n // M < 100


# 2.3 (returns (p, pretest_passed))
def runs(e):
  n = len(e)
  pi = mpmath.mpf(sum(e)) / n
  pretest = abs(pi - mpmath.mpf(1) / 2) < 2 / mpmath.sqrt(n)
  v = 1 + sum(1 for k in range(n - 1) if e[k] != e[k + 1])
  if pi == 0 or pi == 1:
    return 0.0, False
  p = erfc(abs(v - 2 * n * pi * (1 - pi)) /
           (2 * mpmath.sqrt(2 * n) * pi * (1 - pi)))
  return p, bool(pretest)


# 2.4 ; (min n, M, lowest class, highest class, pi as printed in 3.4)
LONGEST_RUN_PARAMS = [
    (128, 8, 1, 4, [0.2148, 0.3672, 0.2305, 0.1875]),
    (6272, 128, 4, 9, [0.1174, 0.2430, 0.2493, 0.1752, 0.1027, 0.1124]),
    (750000, 10000, 10, 16, [0.0882, 0.2092, 0.2483, 0.1933, 0.1208, 0.0675,
                             0.0727]),
]


def longest_run_of_ones(block):
  best = cur = 0
  for b in block:
    cur = cur + 1 if b else 0
    best = max(best, cur)
  return best


def longest_runs(e):
  n = len(e)
  par = None
  for p in LONGEST_RUN_PARAMS:
    if n >= p[0]:
      par = p
  if par is None:
    return None
  _, M, lo, hi, pi = par
  N = n // M
  v = [0] * (hi - lo + 1)
  for i in range(N):
    r = longest_run_of_ones(e[i * M:(i + 1) * M])
    v[min(max(r, lo), hi) - lo] += 1
  return chi_pvalue(v, pi, hi - lo)


def longest_run_exact_distribution(M, lo, hi):
  """Exact class probabilities for the longest run of ones in M random bits."""
  def count_le(L):
    # number of M-bit strings with every run of ones <= L
    if L >= M:
      return 2 ** M
    a = [0] * (M + 1)      # a[i]: strings of length i with runs <= L
    for i in range(M + 1):
      if i <= L:
        a[i] = 2 ** i
      else:
        a[i] = sum(a[i - j - 1] for j in range(L + 1))
    return a[M]
  total = 2 ** M
  out = []
  for c in range(lo, hi + 1):
    if c == lo:
      out.append(Fraction(count_le(c), total))
    elif c == hi:
      out.append(1 - Fraction(count_le(c - 1), total))
    else:
      out.append(Fraction(count_le(c) - count_le(c - 1), total))
  return out


# 2.5 ; deviation: distribution recomputed exactly; categories rank M, M-1,
# ..., M-k+1 and "<= M-k" (k+1 classes, k degrees of freedom)
def rank_probability(r, M, Q):
  """P[rank of a random M x Q binary matrix == r] (exact rational)."""
  if r < 0 or r > min(M, Q):
    return Fraction(0)
  p = Fraction(2) ** (r * (Q + M - r) - M * Q)
  for i in range(r):
    p *= (1 - Fraction(2) ** (i - Q)) * (1 - Fraction(2) ** (i - M)) / (
        1 - Fraction(2) ** (i - r))
  return p


def gf2_rank(rows):
  basis = {}
  for r in rows:
    while r:
      h = r.bit_length() - 1
      if h in basis:
        r ^= basis[h]
      else:
        basis[h] = r
        break
  return len(basis)


def matrix_rank_test(e, r=32, c=32, k=3):
  n = len(e)
  nm = n // (r * c)
  if nm < 1:
    return None
  v = [0] * (k + 1)
  for i in range(nm):
    rows = []
    for j in range(r):
      off = (i * r + j) * c
      rows.append(int(''.join(map(str, e[off:off + c])), 2))
    v[min(k, r - gf2_rank(rows))] += 1
  pi = [rank_probability(r - j, r, c) for j in range(k)]
  pi.append(1 - sum(pi))
  return chi_pvalue(v, [mpmath.mpf(p.numerator) / p.denominator for p in pi], k)


# 2.6 ; returns (p_low, p_high): an interval when a peak sits on the threshold
def spectral(e):
  import numpy
  n = len(e)
  x = numpy.array([2 * b - 1 for b in e], dtype=float)
  m = numpy.abs(numpy.fft.fft(x))[:n // 2]
  t = math.sqrt(math.log(1 / 0.05) * n)
  n0 = 0.95 * n / 2
  lo = int(numpy.count_nonzero(m < t * (1 - 1e-9)))
  hi = int(numpy.count_nonzero(m < t * (1 + 1e-9)))
  ps = []
  for n1 in range(lo, hi + 1):
    d = (n1 - n0) / math.sqrt(n * 0.95 * 0.05 / 4)
    ps.append(erfc(abs(d) / math.sqrt(2)))
  return min(ps), max(ps)


# 2.7
def is_aperiodic(t):
  m = len(t)
  return all(t[:m - s] != t[s:] for s in range(1, m))


def aperiodic_templates(m):
  out = []
  for v in range(2 ** m):
    t = tuple((v >> (m - 1 - i)) & 1 for i in range(m))
    if is_aperiodic(t):
      out.append(t)
  return out


def non_overlapping(e, N, m, templates):
  """templates: tuples in sequence order. Returns {template: p}."""
  n = len(e)
  M = n // N
  mu = mpmath.mpf(M - m + 1) / 2 ** m
  var = M * (mpmath.mpf(1) / 2 ** m - mpmath.mpf(2 * m - 1) / 2 ** (2 * m))
  res = {}
  strs = [''.join(map(str, e[j * M:(j + 1) * M])) for j in range(N)]
  for t in templates:
    ts = ''.join(map(str, t))
    chi = 0
    for s in strs:
      # NIST 2.7.4 (2): on a match the window jumps behind the match
      w, i = 0, 0
      while i <= M - m:
        if s.startswith(ts, i):
          w += 1
          i += m
        else:
          i += 1
      chi += (w - mu) ** 2 / var
    res[t] = igamc(mpmath.mpf(N) / 2, chi / 2)
  return res


# 2.8 ; deviation: exact distribution instead of NIST's approximation
def overlapping_distribution(M, m, K):
  """P[number of (overlapping) runs of m ones in M random bits == i], i<K,
  and >= K, exactly."""
  # state: (occurrences capped at K, current run length capped at m-1)
  cur = {(0, 0): 1}
  for _ in range(M):
    nxt = {}
    for (occ, run), cnt in cur.items():
      k0 = (occ, 0)
      nxt[k0] = nxt.get(k0, 0) + cnt
      if run == m - 1:
        k1 = (min(K, occ + 1), m - 1)
      else:
        k1 = (occ, run + 1)
      nxt[k1] = nxt.get(k1, 0) + cnt
    cur = nxt
  tot = 2 ** M
  out = [0] * (K + 1)
  for (occ, _), cnt in cur.items():
    out[occ] += cnt
  return [Fraction(c, tot) for c in out]


_overlap_cache = {}


def overlapping(e, m=9, M=None, K=5):
  n = len(e)
  M = M or 2 ** (m + 1) + m - 1
  N = n // M
  if N < 1:
    return None
  key = (M, m, K)
  if key not in _overlap_cache:
    _overlap_cache[key] = overlapping_distribution(M, m, K)
  pi = _overlap_cache[key]
  v = [0] * (K + 1)
  ones = '1' * m
  for j in range(N):
    s = ''.join(map(str, e[j * M:(j + 1) * M]))
    cnt = sum(1 for i in range(M - m + 1) if s.startswith(ones, i))
    v[min(K, cnt)] += 1
  return chi_pvalue(v, [mpmath.mpf(p.numerator) / p.denominator for p in pi], K)


# 2.9
# L = 1..5: Maurer 1992 / Handbook of Applied Cryptography table 5.3
UNIVERSAL_TABLE = {1: (0.7326495, 0.690), 2: (1.5374383, 1.338),
                   3: (2.4016068, 1.901), 4: (3.3112247, 2.358),
                   5: (4.2534266, 2.705), 6: (5.2177052, 2.954), 7: (6.1962507, 3.125),
                   8: (7.1836656, 3.238), 9: (8.1764248, 3.311),
                   10: (9.1723243, 3.356), 11: (10.170032, 3.384),
                   12: (11.168765, 3.401), 13: (12.168070, 3.410),
                   14: (13.167693, 3.416), 15: (14.167488, 3.419),
                   16: (15.167379, 3.421)}
UNIVERSAL_MIN_N = {6: 387840, 7: 904960, 8: 2068480, 9: 4654080, 10: 10342400,
                   11: 22753280, 12: 49643520, 13: 107560960, 14: 231669760,
                   15: 496435200, 16: 1059061760}


def universal(e, L=None, Q=None):
  n = len(e)
  if L is None:
    cand = [l for l, b in UNIVERSAL_MIN_N.items() if b <= n]
    if not cand:
      return None
    L = max(cand)
  Q = Q if Q is not None else 10 * 2 ** L
  K = n // L - Q
  last = {}
  blocks = [tuple(e[i * L:(i + 1) * L]) for i in range(Q + K)]
  for i in range(1, Q + 1):
    last[blocks[i - 1]] = i
  s = mpmath.mpf(0)
  for i in range(Q + 1, Q + K + 1):
    b = blocks[i - 1]
    s += mpmath.log(i - last.get(b, 0), 2)
    last[b] = i
  fn = s / K
  ev, var = UNIVERSAL_TABLE[L]
  c = 0.7 - 0.8 / L + (4 + 32.0 / L) * mpmath.power(K, -3.0 / L) / 15
  sigma = c * mpmath.sqrt(mpmath.mpf(var) / K)
  return erfc(abs(fn - ev) / (mpmath.sqrt(2) * sigma))


def universal_exact_expectation(L, terms=4000):
  """Maurer 1992: E[f] and Var[log2 A] for block length L (series)."""
  mpmath.mp.dps = 40
  q = mpmath.mpf(2) ** (-L)
  ev = mpmath.nsum(lambda i: (1 - q) ** (i - 1) * mpmath.log(i, 2),
                   [1, mpmath.inf]) * q
  e2 = mpmath.nsum(lambda i: (1 - q) ** (i - 1) * mpmath.log(i, 2) ** 2,
                   [1, mpmath.inf]) * q
  mpmath.mp.dps = 30
  return ev, e2 - ev ** 2


# 2.10 ; plus the documented extra "extreme values" p-value
def linear_complexity_bm(s):
  """Textbook Berlekamp-Massey over GF(2) on a list of bits."""
  n = len(s)
  c = [0] * (n + 1)
  b = [0] * (n + 1)
  c[0] = b[0] = 1
  L, m = 0, -1
  for i in range(n):
    d = s[i]
    for j in range(1, L + 1):
      d ^= c[j] & s[i - j]
    if d:
      t = c[:]
      sh = i - m
      for j in range(0, n + 1 - sh):
        c[j + sh] ^= b[j]
      if 2 * L <= i:
        L = i + 1 - L
        m = i
        b = t
  return L


def linear_complexity_test(e, M):
  n = len(e)
  N = n // M
  mu = mpmath.mpf(M) / 2 + mpmath.mpf(9 + (-1) ** (M + 1)) / 36 - (
      mpmath.mpf(M) / 3 + mpmath.mpf(2) / 9) / mpmath.mpf(2) ** M
  # 3.10: the printed 0.010417, 0.03125, 0.125, 0.5, 0.25, 0.0625, 0.020833
  # are the 6-digit roundings of these exact values
  pi = [mpmath.mpf(1) / 96, mpmath.mpf(1) / 32, mpmath.mpf(1) / 8,
        mpmath.mpf(1) / 2, mpmath.mpf(1) / 4, mpmath.mpf(1) / 16,
        mpmath.mpf(1) / 48]
  v = [0] * 7
  Ls = []
  for i in range(N):
    L = linear_complexity_bm(e[i * M:(i + 1) * M])
    Ls.append(L)
    t = (-1) ** M * (L - mu) + mpmath.mpf(2) / 9
    if t <= -2.5:
      v[0] += 1
    elif t <= -1.5:
      v[1] += 1
    elif t <= -0.5:
      v[2] += 1
    elif t <= 0.5:
      v[3] += 1
    elif t <= 1.5:
      v[4] += 1
    elif t <= 2.5:
      v[5] += 1
    else:
      v[6] += 1
  p1 = chi_pvalue(v, pi, 6)
  # extreme values: probability of needing q or more fair coin tosses to see
  # N heads, q = -sum log2 P[LC == L_i]
  q = 0
  for L in Ls:
    q += -lfsr_log2_probability(M, L)
  tosses = q - 1
  p2 = float(Fraction(sum(math.comb(tosses, j) for j in range(0, min(
      N - 1, tosses) + 1)), 2 ** tosses)) if tosses >= 0 else 1.0
  return p1, p2, Ls


def lfsr_log2_probability(n, L):
  """log2 of P[linear complexity of n random bits == L] (Rueppel)."""
  if L == 0:
    return -n
  if L <= n // 2:
    return 2 * L - 1 - n
  return n - 2 * L


# 2.11 / 2.12 ; cyclic pattern counts
def pattern_counts(e, m):
  n = len(e)
  if m == 0:
    return {(): n}
  ext = e + e[:m - 1]
  cnt = {}
  for i in range(n):
    k = tuple(ext[i:i + m])
    cnt[k] = cnt.get(k, 0) + 1
  return cnt


def pattern_counts_fast(seq, n, m):
  """Same on the integer representation (for long strings)."""
  if m == 0:
    return [n]
  ext = seq | ((seq & ((1 << (m - 1)) - 1)) << n)
  mask = (1 << m) - 1
  cnt = [0] * (1 << m)
  for i in range(n):
    cnt[(ext >> i) & mask] += 1
  return cnt


def psi2(counts, m, n):
  if m <= 0:
    return mpmath.mpf(0)
  return mpmath.mpf(2 ** m) / n * sum(c * c for c in counts) - n


def serial(seq, n, m_max):
  """Returns {m: (p1, p2)} for m = 2..m_max."""
  psi = {0: mpmath.mpf(0), -1: mpmath.mpf(0)}
  counts = pattern_counts_fast(seq, n, m_max)
  for m in range(m_max, 0, -1):
    psi[m] = psi2(counts, m, n)
    counts = _merge(counts)
  out = {}
  for m in range(2, m_max + 1):
    d1 = psi[m] - psi[m - 1]
    d2 = psi[m] - 2 * psi[m - 1] + psi[m - 2]
    out[m] = (igamc(mpmath.mpf(2) ** (m - 2), d1 / 2),
              igamc(mpmath.mpf(2) ** (m - 3), d2 / 2), float(d2))
  return out


def _merge(counts):
  """Counts of (m-1)-bit patterns from m-bit patterns: drop the last bit of
  the window (bit m-1 of the LSB-first window value)."""
  half = len(counts) // 2
  return [counts[i] + counts[i + half] for i in range(half)]


def approximate_entropy(seq, n, m_list):
  out = {}
  phis = {}
  for m in sorted(set(m_list) | {m + 1 for m in m_list}):
    cnt = pattern_counts_fast(seq, n, m)
    phis[m] = sum((mpmath.mpf(c) / n) * mpmath.log(mpmath.mpf(c) / n)
                  for c in cnt if c)
  for m in m_list:
    apen = phis[m] - phis[m + 1]
    chi = 2 * n * (mpmath.log(2) - apen)
    out[m] = igamc(mpmath.mpf(2) ** (m - 1), chi / 2)
  return out


# 2.13
def cusum_pvalue(n, z):
  if z == 0:
    return None
  sn = mpmath.sqrt(n)
  s1 = mpmath.mpf(0)
  k = math.floor((-n / z + 1) / 4)
  while k <= math.floor((n / z - 1) / 4):
    s1 += ncdf((4 * k + 1) * z / sn) - ncdf((4 * k - 1) * z / sn)
    k += 1
  s2 = mpmath.mpf(0)
  k = math.floor((-n / z - 3) / 4)
  while k <= math.floor((n / z - 1) / 4):
    s2 += ncdf((4 * k + 3) * z / sn) - ncdf((4 * k + 1) * z / sn)
    k += 1
  return float(1 - s1 + s2)


def cusum(e):
  """(forward p, reverse p, z forward, z reverse)."""
  n = len(e)
  s, zf = 0, 0
  for b in e:
    s += 2 * b - 1
    zf = max(zf, abs(s))
  s, zr = 0, 0
  for b in reversed(e):
    s += 2 * b - 1
    zr = max(zr, abs(s))
  return cusum_pvalue(n, zf), cusum_pvalue(n, zr), zf, zr


# 2.14 / 2.15
def excursion_pi(x, k):
  ax = abs(x)
  if k == 0:
    return 1 - Fraction(1, 2 * ax)
  if k < 5:
    return Fraction(1, 4 * x * x) * (1 - Fraction(1, 2 * ax)) ** (k - 1)
  return Fraction(1, 2 * ax) * (1 - Fraction(1, 2 * ax)) ** 4


def random_excursions(e, max_state=4, variant_state=9):
  """Returns (J, {x: p}, {x: p_variant}); J = number of cycles (2.14.4)."""
  # S' = 0, S_1, ..., S_n, 0 ; J = number of zeros in S' after the starting
  # zero (2.14.4 step 4, read literally: the appended zero always counts, so
  # a walk ending at zero contributes a final empty cycle).
  s = 0
  cycles = []
  cur = {}
  for b in e:
    s += 2 * b - 1
    if s == 0:
      cycles.append(cur)
      cur = {}
    else:
      cur[s] = cur.get(s, 0) + 1
  cycles.append(cur)
  J = len(cycles)
  p_exc, p_var = {}, {}
  for x in range(-max_state, max_state + 1):
    if x == 0:
      continue
    nu = [0] * 6
    for c in cycles:
      nu[min(5, c.get(x, 0))] += 1
    chi = sum((mpmath.mpf(nu[k]) - J * mpmath.mpf(excursion_pi(x, k).numerator)
               / excursion_pi(x, k).denominator) ** 2 /
              (J * mpmath.mpf(excursion_pi(x, k).numerator) /
               excursion_pi(x, k).denominator) for k in range(6))
    p_exc[x] = igamc(mpmath.mpf(5) / 2, chi / 2)
  for x in range(-variant_state, variant_state + 1):
    if x == 0:
      continue
    xi = sum(c.get(x, 0) for c in cycles)
    p_var[x] = erfc(abs(xi - J) / mpmath.sqrt(2 * J * (4 * abs(x) - 2)))
  return J, p_exc, p_var
