"""Textbook chord-and-tangent group law over Python ints.  Never imports the
repository.  INF is None."""
import math

INF = None


class Curve:
  """y^2 = x^3 + a x + b over F_p."""

  def __init__(self, p, a, b, g=None, n=None, name=''):
    self.p, self.a, self.b, self.g, self.n, self.name = p, a % p, b % p, g, n, name

  def on_curve(self, P):
    if P is INF:
      return True
    x, y = P
    return (y * y - (x * x * x + self.a * x + self.b)) % self.p == 0

  def neg(self, P):
    if P is INF:
      return INF
    return (P[0], -P[1] % self.p)

  def add(self, P, Q):
    p = self.p
    if P is INF:
      return Q
    if Q is INF:
      return P
    x1, y1 = P
    x2, y2 = Q
    if (x1 - x2) % p == 0:
      if (y1 + y2) % p == 0:
        return INF
      lam = (3 * x1 * x1 + self.a) * pow(2 * y1, -1, p) % p
    else:
      lam = (y2 - y1) * pow(x2 - x1, -1, p) % p
    x3 = (lam * lam - x1 - x2) % p
    y3 = (lam * (x1 - x3) - y1) % p
    return (x3, y3)

  def sub(self, P, Q):
    return self.add(P, self.neg(Q))

  def dbl(self, P):
    return self.add(P, P)

  def mul(self, P, k):
    if k < 0:
      return self.mul(self.neg(P), -k)
    R = INF
    Q = P
    while k:
      if k & 1:
        R = self.add(R, Q)
      Q = self.add(Q, Q)
      k >>= 1
    return R

  def mulg(self, k):
    return self.mul(self.g, k)

  def points(self):
    """All affine points (tiny curves only)."""
    p = self.p
    sq = {}
    for y in range(p):
      sq.setdefault(y * y % p, []).append(y)
    out = []
    for x in range(p):
      for y in sq.get((x * x * x + self.a * x + self.b) % p, []):
        out.append((x, y))
    return out

  def nonsingular(self):
    return (4 * self.a ** 3 + 27 * self.b ** 2) % self.p != 0


def is_prime_small(n):
  if n < 2:
    return False
  return all(n % d for d in range(2, math.isqrt(n) + 1))


def order_of(c, P):
  k, Q = 1, P
  while Q is not INF:
    Q = c.add(Q, P)
    k += 1
  return k


def tiny_curves(rng, count, pmin=200, pmax=1500, a_minus3=None, prime_order=True):
  """Brute-force search for small curves; returns Curve objects with generator
  and (prime, if requested) group order."""
  out = []
  tries = 0
  while len(out) < count and tries < 20000:
    tries += 1
    p = rng.randint(pmin, pmax)
    if not is_prime_small(p) or p < 5:
      continue
    a = (p - 3) if (a_minus3 if a_minus3 is not None else rng.chance(1, 2)) \
        else rng.randint(0, p - 1)
    b = rng.randint(1, p - 1)
    c = Curve(p, a, b)
    if not c.nonsingular():
      continue
    pts = c.points()
    order = len(pts) + 1
    if prime_order:
      if not is_prime_small(order):
        continue
      g = pts[rng.below(len(pts))]
    else:
      if is_prime_small(order):
        continue
      g = pts[rng.below(len(pts))]
      order = order_of(c, g)
    c.g, c.n, c.name = g, order, 'tiny-p%d-a%d-b%d' % (p, a, b)
    c.group_order = len(pts) + 1
    out.append(c)
  return out


# Named-curve parameters are *read from the repository object* by the checks
# (they are the subject of C11's constants clause); OpenSSL is the independent
# cross-check there.


def cofactor_curves(rng, count, pmin=200, pmax=900):
  """Tiny curves whose group order is h*r with r prime and h >= 2; the
  generator has order r (c.n), c.h = h."""
  out = []
  while len(out) < count:
    p = rng.randint(pmin, pmax)
    if not is_prime_small(p) or p < 5:
      continue
    c = Curve(p, rng.randint(0, p - 1), rng.randint(1, p - 1))
    if not c.nonsingular():
      continue
    pts = c.points()
    go = len(pts) + 1
    r = max(d for d in range(2, go + 1) if go % d == 0 and is_prime_small(d))
    h = go // r
    if h < 2 or r < 11:
      continue
    g = INF
    while g is INF:
      g = c.mul(pts[rng.below(len(pts))], h)
    c.g, c.n, c.h, c.group_order = g, r, h, go
    c.name = 'cof%d-p%d-a%d-b%d' % (h, p, c.a, c.b)
    out.append(c)
  return out
