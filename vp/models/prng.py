"""Models of java.util.Random + BigInteger(numBits, rnd) and of a truncated
LCG, written from their specifications (Java SE API docs; L'Ecuyer 1999)."""


class JavaUtilRandom:
  """java.util.Random as specified in the Java SE API documentation."""

  def __init__(self, seed):
    self.seed = (seed ^ 0x5DEECE66D) & ((1 << 48) - 1)

  def next(self, bits):
    self.seed = (self.seed * 0x5DEECE66D + 0xB) & ((1 << 48) - 1)
    v = self.seed >> (48 - bits)
    # (int) cast: two's complement 32 bit
    return v - (1 << 32) if bits == 32 and v >= 1 << 31 else v

  def next_int(self):
    return self.next(32)

  def next_bytes(self, n):
    out = bytearray()
    while len(out) < n:
      rnd = self.next_int()
      for _ in range(min(n - len(out), 4)):
        out.append(rnd & 0xff)
        rnd >>= 8        # arithmetic shift on a Python int == Java's >>
    return bytes(out)


def java_biginteger(num_bits, seed):
  """new BigInteger(numBits, new Random(seed)) per the OpenJDK specification:
  randomBits(): (numBits+7)/8 bytes from nextBytes, excess high bits of the
  first byte cleared, magnitude big-endian."""
  rnd = JavaUtilRandom(seed)
  nbytes = (num_bits + 7) // 8
  if nbytes == 0:
    return 0
  b = bytearray(rnd.next_bytes(nbytes))
  excess = 8 * nbytes - num_bits
  b[0] &= (1 << (8 - excess)) - 1
  return int.from_bytes(b, 'big')


# L'Ecuyer, Tables of linear congruential generators ..., Math. Comp. 68
# (1999), table 4 (modulus 2^e, c odd) and Steele & Vigna 2022 for 2^256.
LECUYER = {
    32: 2891336453, 34: 52765661, 35: 22475205, 36: 12132445,
    40: 330169576829, 48: 181465474592829, 60: 454339144066433781,
    63: 9219741426499971445, 64: 2862933555777941757,
    96: 75564983892026345434470042133,
    128: 47026247687942121848144207491837418733,
    256: 92535799708728563004421432684894516311017097014017594320373447727772634342485,
}


def trunc_lcg_stream(k, seed, nbytes, c=1):
  """Truncated LCG: state of 2k bits, x <- a x + c mod 2^(2k), output the
  upper k bits; outputs laid out little-endian in ceil(k/8)-byte chunks."""
  a = LECUYER[256]
  for size in sorted(LECUYER):
    if size >= 2 * k:
      a = LECUYER[size]
      break
  chunk = (k + 7) // 8
  out = bytearray()
  state = seed
  while len(out) < nbytes:
    state = (state * a + c) % (1 << (2 * k))
    out += (state >> k).to_bytes(chunk, 'little')
  return bytes(out[:nbytes])


def trunc_lcg_bits(k, seed, n):
  """First n bits of the stream as an integer (bit i = i-th stream bit)."""
  s = int.from_bytes(trunc_lcg_stream(k, seed, (n + 7) // 8), 'little')
  return s & ((1 << n) - 1)
