"""Definitional bit-string primitives on Python strings/lists.  A bit string of
`length` bits is the integer whose bit i is element i (LSB first)."""
from collections import Counter


def lsb_string(seq, length):
  """Element i of the result is bit i of seq."""
  return format(seq, 'b').zfill(length)[::-1] if length else ''


def value(window):
  """Integer of an LSB-first window string."""
  return int(window[::-1], 2) if window else 0


def windows(seq, length, m, wrap):
  s = lsb_string(seq, length)
  if wrap:
    s2 = s + s[:m - 1]
    return [value(s2[i:i + m]) for i in range(length)]
  return [value(s[i:i + m]) for i in range(length - m + 1)]


def frequency_count(seq, length, m, wrap):
  c = Counter(windows(seq, length, m, wrap))
  return [c.get(i, 0) for i in range(2 ** m)]


def split_sequence(seq, length, m):
  s = lsb_string(seq, max(length, seq.bit_length()))
  return [value(s[i * m:(i + 1) * m]) for i in range(length // m)]


def scatter(seq, m):
  s = lsb_string(seq, max(seq.bit_length(), m))
  return [value(s[i::m]) for i in range(m)]


def runs(seq, length):
  s = lsb_string(seq, length)
  return sum(1 for i in range(length) if i == 0 or s[i] != s[i - 1])


def longest_run_of_ones(seq):
  return max((len(r) for r in format(seq, 'b').split('0')), default=0)


def overlapping_runs_of_ones(seq, m):
  s = format(seq, 'b')
  return sum(1 for i in range(len(s) - m + 1) if s[i:i + m] == '1' * m)


def reverse_bits(seq, length):
  return value(lsb_string(seq, length)[::-1])


def pm1(seq, length):
  return [1 if c == '1' else -1 for c in lsb_string(seq, length)]


def popcount(seq):
  return format(seq, 'b').count('1')


def gf2_rank(rows):
  """Rank over GF(2) of rows given as non-negative ints."""
  basis = {}
  for r in rows:
    while r:
      h = r.bit_length() - 1
      if h in basis:
        r ^= basis[h]
      else:
        basis[h] = r
        break
  return len(basis)


def linear_complexity(bits):
  """Definition (no Berlekamp-Massey): smallest L such that some c_1..c_L over
  GF(2) satisfy s_j = sum_i c_i s_{j-i} for all j in L..n-1.  Decided by
  Gaussian elimination of the linear system for each L."""
  n = len(bits)
  for L in range(0, n + 1):
    # unknowns c_1..c_L ; equations j = L..n-1 ; augmented column = s_j
    rows = []
    for j in range(L, n):
      r = 0
      for i in range(1, L + 1):
        r |= bits[j - i] << i
      r |= bits[j]           # bit 0 = right-hand side
      rows.append(r)
    # solvable iff no row reduces to "0 = 1"
    basis = {}
    ok = True
    for r in rows:
      while r > 1:
        h = r.bit_length() - 1
        if h in basis:
          r ^= basis[h]
        else:
          basis[h] = r
          break
      if r == 1:
        ok = False
        break
    if ok:
      return L
  return n
