"""ECDSA signature workloads with generator-side ground truth (d and every
nonce known).  k*G comes from OpenSSL when available (independent of the
repository), else from the model law."""
from vp import gen
from vp.models import ec as mec

_OSSL = {}


def _ossl_curve(name):
  if name not in _OSSL:
    try:
      from cryptography.hazmat.primitives.asymmetric import ec as cec
      cls = {'SECP192R1': cec.SECP192R1, 'SECP224R1': cec.SECP224R1,
             'SECP256R1': cec.SECP256R1, 'SECP384R1': cec.SECP384R1,
             'SECP521R1': cec.SECP521R1, 'SECP256K1': cec.SECP256K1,
             'BRAINPOOLP256R1': cec.BrainpoolP256R1,
             'BRAINPOOLP384R1': cec.BrainpoolP384R1,
             'BRAINPOOLP512R1': cec.BrainpoolP512R1}[name.replace('CURVE_', '')]
      cec.derive_private_key(2, cls())
      _OSSL[name] = (cec, cls)
    except Exception:  # pylint: disable=broad-except
      _OSSL[name] = None
  return _OSSL[name]


def mulg(curve, k):
  """k*G as (x, y) via OpenSSL if possible (k in [1, n-1]), else the model."""
  c = gen.model_curve(curve)
  k %= c.n
  if k == 0:
    return mec.INF
  o = _ossl_curve(curve)
  if o:
    cec, cls = o
    pn = cec.derive_private_key(k, cls()).public_key().public_numbers()
    return (pn.x, pn.y)
  return c.mulg(k)


def issuer(rng, curve, d=None):
  n = gen.model_curve(curve).n
  d = d if d is not None else rng.below(n - 1) + 1
  return d, mulg(curve, d)


def sign_k(curve, d, pub, k, h, pad=0):
  """Signature protobuf for explicit nonce k, or None when r or s is 0."""
  n = gen.model_curve(curve).n
  R = mulg(curve, k)
  if R is mec.INF:
    return None
  r = R[0] % n
  z = gen.bits2int_mod(h, n)
  s = pow(k, -1, n) * (z + r * d) % n
  if r == 0 or s == 0:
    return None
  return gen.ecdsa_sig(curve, r, s, h, pub, pad)


def sign_many(rng, curve, d, pub, nonces, hlen=None):
  out = []
  for k in nonces:
    s = sign_k(curve, d, pub, k, gen.msg_hash(rng, hlen))
    if s is not None:
      out.append(s)
  return out


def nonces_uniform(rng, n, count):
  return [rng.below(n - 1) + 1 for _ in range(count)]


def nonces_msb(rng, n, width, count):
  bits = n.bit_length()
  return [rng.below((1 << (bits - width)) - 1) + 1 for _ in range(count)]


def nonces_prefix(rng, n, width, count):
  bits = n.bit_length()
  while True:
    pre = rng.bits(width)
    base = pre << (bits - width)
    if base + (1 << (bits - width)) <= n and pre:
      break
  return [base + rng.bits(bits - width) for _ in range(count)]


def nonces_postfix(rng, n, width, count):
  bits = n.bit_length()
  suf = rng.bits(width) | 1
  out = []
  while len(out) < count:
    k = (rng.bits(bits - width) << width) | suf
    if 0 < k < n:
      out.append(k)
  return out


def nonces_generalized(rng, n, width, count):
  """k_i with m*k_i mod n sharing their `width` top bits for a secret m."""
  m = rng.below(n - 2) + 2
  minv = pow(m, -1, n)
  return [kp * minv % n or 1 for kp in nonces_prefix(rng, n, width, count)]


def nonces_u2f(rng, n, count):
  """CR50 U2F flaw: every 32-bit word of k is one byte repeated four times."""
  bits = n.bit_length()
  out = []
  while len(out) < count:
    k = sum((rng.bits(8) * 0x01010101) << (32 * j) for j in range(bits // 32))
    if 0 < k < n:
      out.append(k)
  return out


# GMP gmp_randinit_lc_2exp_size multiplier table (randlc2x.c)
GMP_TABLE = {
    32: '29CF535', 33: '51F666D', 34: 'A3D73AD', 35: '147E5B85', 36: '28F725C5',
    37: '51EE3105', 38: 'A3DD5CDD', 39: '147AF833D', 40: '28F5DA175',
    56: 'AA7D735234C0DD', 64: 'BAECD515DAF0B49D',
    100: '292787EBD3329AD7E7575E2FD',
    128: '48A74F367FA7B5C8ACBB36901308FA85',
    156: '78A7FDDDC43611B527C3F1D760F36E5D7FC7C45',
    196: '41BA2E104EE34C66B3520CE706A56498DE6D44721E5E24F5',
    200: '4E5A24C38B981EAFE84CD9D0BEC48E83911362C114F30072C5',
    256: 'AF66BA932AAF58A071FD8F0742A99A0C76982D648509973DB802303128A14CB5'}


class GmpLc:
  """GMP's lc_2exp generator: X <- aX + 1 mod 2^m2exp; a chunk is the upper
  half of the state; values are built from chunks, least significant first,
  the last (partial) chunk contributing its low bits."""

  def __init__(self, m2exp, seed):
    self.m2exp, self.a = m2exp, int(GMP_TABLE[m2exp], 16)
    self.state = seed % (1 << m2exp)

  def chunk(self):
    self.state = (self.a * self.state + 1) % (1 << self.m2exp)
    return self.state >> (self.m2exp // 2)

  def urandomb(self, nbits):
    cb, r, pos = self.m2exp // 2, 0, 0
    while pos + cb <= nbits:
      r |= self.chunk() << pos
      pos += cb
    if pos != nbits:
      r |= (self.chunk() & ((1 << (nbits - pos)) - 1)) << pos
    return r

  def urandomm(self, n):
    nb = (n - 1).bit_length() if n & (n - 1) == 0 else n.bit_length()
    for _ in range(80):
      v = self.urandomb(nb)
      if v < n:
        return v
    return v - n


def nonces_gmp(rng, n, m2exp, count):
  g = GmpLc(m2exp, rng.bits(m2exp))
  out = []
  while len(out) < count:
    k = g.urandomm(n)
    if k:
      out.append(k)
  return out


class JavaLcgNonces:
  """Nonces as new BigInteger(bits, new java.util.Random(seed)) stream."""

  def __init__(self, seed):
    from vp.models import prng
    self.rnd = prng.JavaUtilRandom(seed)

  def next(self, bits):
    nbytes = (bits + 7) // 8
    b = bytearray(self.rnd.next_bytes(nbytes))
    b[0] &= (1 << (8 - (8 * nbytes - bits))) - 1
    return int.from_bytes(b, 'big')


def dlog_of(sig):
  v = gen.attached(sig.test_info).get('DISCRETE_LOG')
  return None if v is None else int(v, 16)
