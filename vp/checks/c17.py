"""C17 - a verdict does not depend on batch neighbours, batch order or
earlier calls.  Differential monitor: the same artifacts (regenerated
identically in every process) are judged in several contexts - alone from a
fresh process, in batches, permuted, with healthy neighbours added, after
warm-up work - and the recorded verdict histories are compared offline."""
from vp import gen
from vp import observe
from vp import sigs
from vp import workloads

ID = 'C17'
RULE = ('one evaluation = one (artifact, check, context) verdict record; the '
        'offline checker groups records by (group, artifact, check) and '
        'compares (entry, evidence) across the contexts that the check kind '
        'makes comparable; distinct by (group, artifact, check); non-trivial = '
        'positive in at least one context or a boundary artifact')
ASSUMPTIONS = ['artifacts are regenerated from the same deterministic stream '
               'in every process', 'lattice checks: only artifacts well inside '
               '/ well outside the detection region are compared under '
               'permutation', 'CheckECKeySmallDifference: max_diff = 2^8']
EXHAUSTIVE_SUBSPACES = []

INDIVIDUAL = {
    'rsa': ['CheckSizes', 'CheckExponents', 'CheckROCA', 'CheckROCAVariant',
            'CheckFermat', 'CheckHighAndLowBitsEqual', 'CheckOpensslDenylist',
            'CheckContinuedFractions', 'CheckBitPatterns',
            'CheckPermutedBitPatterns', 'CheckPollardpm1',
            'CheckLowHammingWeight', 'CheckUnseededRand',
            'CheckSmallUpperDifferences', 'CheckKeypairDenylist'],
    'ec': ['CheckValidECKey', 'CheckWeakCurve', 'CheckWeakECPrivateKey'],
    'ecdsa': [],
}
JOINT = {
    'rsa': ['CheckGCD', 'CheckGCDN1'],
    'ec': ['CheckECKeySmallDifference'],
    'ecdsa': ['CheckLCGNonceGMP', 'CheckLCGNonceJavaUtilRandom',
              'CheckNonceMSB', 'CheckNonceCommonPrefix',
              'CheckNonceCommonPostfix', 'CheckNonceGeneralized',
              'CheckIssuerKey', 'CheckCr50U2f'],
}
CONTEXTS = ['alone-seq', 'alone-rev', 'batch', 'perm1', 'perm2',
            'plus-healthy', 'warm', 'foreign-first', 'shrink-grow']
BATCH_CONTEXTS = ['batch', 'perm1', 'perm2', 'plus-healthy', 'warm']
# 'foreign-first' is a sub-batch: comparable for individually judging checks
# and, for jointly judging ones, only where the judgement is per curve/issuer
SUBBATCH_OK = {'CheckECKeySmallDifference', 'CheckLCGNonceGMP',
               'CheckLCGNonceJavaUtilRandom', 'CheckNonceMSB',
               'CheckNonceCommonPrefix', 'CheckNonceCommonPostfix',
               'CheckNonceGeneralized', 'CheckCr50U2f', 'CheckIssuerKey'}


def plan(tier, seed):
  q = tier == 'quick'
  specs = []
  groups = [('rsa', i) for i in range(3 if q else 12)]
  groups += [('ec', i) for i in range(2 if q else 8)]
  groups += [('ecdsa', i) for i in range(2 if q else 8)]
  for fam, g in groups:
    for c in CONTEXTS:
      specs.append({'shard': '%s-g%d-%s' % (fam, g, c), 'family': fam,
                    'group': g, 'context': c,
                    'weight': {'rsa': 2, 'ec': 6, 'ecdsa': 5}[fam]})
  for i in range(2 if q else 8):
    specs.append({'shard': 'rsa-fill-%d' % i, 'family': 'rsa', 'group': i,
                  'context': 'filler-sweep', 'pairs': 3 if q else 6,
                  'max': 44 if q else 140, 'weight': 2})
  return specs


# ------------------------------------------------------------ group builders

def build_group(ctx, fam, g):
  """Deterministic artifacts for (family, group): same in every process."""
  from vp.harness import Rng
  rng = Rng('C17/%d/group/%s/%d' % (ctx.seed, fam, g))
  if fam == 'rsa':
    kinds = ['fermat', 'hilo', 'upperdiff', 'unseeded', 'word', 'swap',
             'bothpattern', 'keypair', 'small', 'exponent', 'shared', 'shared',
             'n1shared', 'n1shared', 'roca', 'prime', 'square', 'even',
             'oddlen', 'healthy', 'healthy']
    pick = rng.sample(kinds, 6) + ['shared', 'shared', 'pollard-weak-small',
                                  'pollard-below-gate', 'pollard-below-gate']
    rng.shuffle(pick)
    pool = []
    arts = [workloads.rsa_artifact(rng, k, pool) for k in pick]
    # a key that makes an early pattern size succeed next to one needing a
    # later pattern (loop `break` state must not leak between keys)
    arts.append(workloads.rsa_artifact(rng, 'word'))
    # a small modulus ahead of one that needs the largest pattern size (size-
    # dependent parameters must be derived per key, not carried along)
    arts.append(workloads.rsa_artifact(rng, 'tiny'))
    arts.append(workloads.rsa_artifact(rng, 'word-large'))
    # a healthy modulus of the same *byte* length as a weak one but two bits
    # shorter, ahead of it (whatever a check derives from a key's size must
    # be derived from that key)
    u = workloads.rsa_artifact(rng, 'unseeded')
    pn, qn = gen.semiprime(rng, u['n'].bit_length() - 2)
    arts.append({'n': pn * qn, 'e': 65537, 'kind': 'healthy-two-bits-shorter',
                 'p': pn, 'q': qn})
    arts.append(u)
    protos = workloads.rsa_keys(arts)
    tags = [a['kind'] for a in arts]
    healthy = workloads.rsa_keys([workloads.rsa_artifact(rng, 'healthy')
                                  for _ in range(3)])
    return protos, tags, healthy
  if fam == 'ec':
    curves = rng.sample(gen.NAMED, 2)
    protos, tags = [], []
    for c in curves:
      n = gen.model_curve(c).n
      bits = n.bit_length()
      base = rng.below(n - 10 ** 6) + 1
      ds = [
          (rng.below(n - 1) + 1, 'healthy'),
          ((rng.bits(32) | 1) << (8 * rng.randint(0, (bits - 32) // 8)),
           'structured'),
          ((rng.bits(31) | 1) * sum(1 << (32 * j) for j in range(
              rng.randint(2, bits // 32))), 'structured'),
          (2 ** 32 - 1, 'structured-edge'),
          (n - (rng.bits(32) | 1), 'structured-negative'),
          (2 ** 32 + rng.randint(1, 2 ** 21), 'overreach-zone'),
          ((2 ** 32 + rng.randint(1, 2 ** 21)) << 64, 'overreach-zone'),
          (2 ** 33 + rng.bits(30), 'outside'),
          (base, 'closepair'), (base + rng.randint(1, 200), 'closepair'),
          (base, 'closepair-dup'),
      ]
      for d, t in ds:
        protos.append(gen.ec_key_from_priv(c, d % n or 1))
        tags.append('%s:%s' % (c, t))
    for _ in range(3):
      k, d = workloads.ec_hostile_key(rng, gen.curve_id(rng.choice(curves)))
      protos.append(k)
      tags.append(d)
    k, d = workloads.ec_hostile_key(rng, rng.choice([0, 7, 12]))
    protos.append(k)
    tags.append(d)
    healthy = [gen.ec_key_from_priv(c, rng.below(gen.model_curve(c).n - 1) + 1)
               for c in curves for _ in range(2)]
    return protos, tags, healthy
  # ecdsa
  c = rng.choice(['CURVE_SECP256R1', 'CURVE_SECP256K1', 'CURVE_SECP224R1',
                  'CURVE_BRAINPOOLP256R1'])
  n = gen.model_curve(c).n
  protos, tags = [], []
  dA, pubA = sigs.issuer(rng, c)
  kind = rng.choice(['msb', 'prefix', 'postfix'])
  ks = {'msb': sigs.nonces_msb, 'prefix': sigs.nonces_prefix,
        'postfix': sigs.nonces_postfix}[kind](rng, n, 64, 20)
  for s in sigs.sign_many(rng, c, dA, pubA, ks):
    protos.append(s)
    tags.append('%s:biased-%s:d=%x' % (c, kind, dA))
  dB, pubB = sigs.issuer(rng, c)
  for s in sigs.sign_many(rng, c, dB, pubB, sigs.nonces_uniform(rng, n, 4)):
    protos.append(s)
    tags.append('%s:healthy' % c)
  dC, pubC = sigs.issuer(rng, c)
  for s in sigs.sign_many(rng, c, dC, pubC, sigs.nonces_u2f(rng, n, 2)):
    protos.append(s)
    tags.append('%s:u2f:d=%x' % (c, dC))
  c2 = rng.choice([x for x in gen.STRONG if x != c])
  dD, pubD = sigs.issuer(rng, c2)
  for s in sigs.sign_many(rng, c2, dD, pubD, sigs.nonces_uniform(
      rng, gen.model_curve(c2).n, 2)):
    protos.append(s)
    tags.append('%s:healthy-other-curve' % c2)
  # an issuer whose *key* is weak (structured private key) with honest nonces:
  # whatever the issuer-key check writes for it must not rub off on the
  # entries (verdict and severity) of the issuers judged after it
  dF, pubF = sigs.issuer(rng, c, (rng.bits(32) | 1) << (8 * rng.randint(0, 20)))
  for s in sigs.sign_many(rng, c, dF, pubF, sigs.nonces_uniform(rng, n, 2)):
    protos.append(s)
    tags.append('%s:weak-issuer-key:d=%x' % (c, dF))
  dE, pubE = sigs.issuer(rng, c)
  healthy = sigs.sign_many(rng, c, dE, pubE, sigs.nonces_uniform(rng, n, 3))
  return protos, tags, healthy


def _copies(arts):
  out = []
  for a in arts:
    b = type(a)()
    b.CopyFrom(a)
    out.append(b)
  return out


def _order(ctx, fam, idx):
  from vp.harness import Rng
  return Rng('C17/%d/perm/%s/%s' % (ctx.seed, fam, idx))


def _warmup(ctx, fam):
  """Earlier work that leaves caches, tables and singletons in other states."""
  from paranoid_crypto.lib import paranoid
  from vp.harness import Rng
  rng = Rng('C17/%d/warm/%s' % (ctx.seed, fam))
  if fam == 'rsa':
    arts = workloads.rsa_mixed_batch(rng, 12, slow_budget=0)
    paranoid.CheckAllRSA(workloads.rsa_keys(arts))
  else:
    keys = []
    for c in gen.NAMED[:6]:
      n = gen.model_curve(c).n
      keys += [gen.ec_key_from_priv(c, rng.below(n - 1) + 1)
               for _ in range(rng.choice([1, 3, 7]))]
    paranoid.CheckAllEC(keys)       # big and small tables on many curves
    for c in gen.NAMED[:6]:
      rc = gen.repo_curve(c)
      rc.BatchDL([rc.g], 2 ** 10)   # a request smaller than the cached table
    if fam == 'ecdsa':
      c = 'CURVE_SECP256R1'
      d, pub = sigs.issuer(rng, c)
      s = sigs.sign_many(rng, c, d, pub, sigs.nonces_msb(
          rng, gen.model_curve(c).n, 64, 12))
      paranoid.CheckAllECDSASigs(s)
  ctx.count('warmup_runs')


def run_fillers(ctx, spec):
  """Adding healthy artifacts changes nothing for the others: the jointly
  judging RSA checks see a weak pair (shared prime / shared large divisor of
  n - 1) next to 0, 1, 2, ... healthy moduli; the pair's verdict and evidence
  must be the same for every count (tree shapes and set orders all differ)."""
  from paranoid_crypto.lib import rsa_aggregate_checks as ra
  from vp.harness import Rng
  rng = Rng('C17/%d/fillers/%d' % (ctx.seed, spec['group']))
  fillers = [rng.prime(128) * rng.prime(128) for _ in range(spec['max'])]
  for pi in range(spec['pairs']):
    if not ctx.want('pair%d' % pi):
      continue
    sp = rng.prime(256)
    f = rng.prime(160)
    pair = [sp * rng.prime(256), sp * rng.prime(256)]
    n1pair = []
    while len(n1pair) < 2:
      c = f * (rng.bits(300) | 1) * 2 + 1
      n1pair.append(c)
    for name, mk, arts in (('CheckGCD', ra.CheckGCD, pair),
                           ('CheckGCDN1', ra.CheckGCDN1, n1pair)):
      seen = {}
      for k in range(spec['max'] + 1):
        ns = list(arts) + fillers[:k]
        Rng('C17/fill/%d/%d/%d' % (spec['group'], pi, k)).shuffle(ns)
        keys = [gen.rsa_key(n) for n in ns]
        try:
          mk().Check(keys)
        except Exception as e:  # pylint: disable=broad-except
          ctx.violation('check-raised-%s@%s' % (type(e).__name__, name),
                        '%d fillers: %r' % (k, e), None)
          continue
        for a in arts:
          key = keys[ns.index(a)]
          snap = observe.snapshot(key.test_info)
          ent = observe.entries_dict(snap).get(name)
          ev = observe.evidence(snap)
          ctx.count('evaluations')
          ctx.count('filler_sweep_verdicts')
          # (the n - 1 record is the gcd with the product of *all* other
          # n - 1 values: it legitimately picks up small common factors of the
          # neighbours; only the verdict is compared there)
          v = (tuple(ent) if ent else None, tuple(sorted(ev.items()))
               if name == 'CheckGCD' else ())
          seen.setdefault((a, v), []).append(k)
      by_art = {}
      for (a, v), ks in seen.items():
        by_art.setdefault(a, []).append((v, ks))
      for a, vs in by_art.items():
        ctx.distinct('fill', spec['group'], pi, name, a)
        if len(vs) > 1:
          vs.sort(key=lambda t: -len(t[1]))
          ctx.violation('verdict-depends-on-number-of-healthy-neighbours@%s' %
                        name, '%s: verdict %r with %d..%d healthy neighbours, '
                        'but %r with %r' % (name, vs[0][0][0], min(vs[0][1]),
                                            max(vs[0][1]), vs[1][0][0],
                                            vs[1][1][:8]),
                        {'check': name, 'group': spec['group'], 'pair': pi})
  ctx.sample({'family': 'rsa', 'context': 'filler-sweep', 'max_fillers':
              spec['max']})


def run(ctx, spec):
  from paranoid_crypto.lib import paranoid
  if spec.get('context') == 'filler-sweep':
    return run_fillers(ctx, spec)
  fam, g, context = spec['family'], spec['group'], spec['context']
  if fam != 'rsa':
    workloads.install_small_maxdiff(2 ** 8)
  protos, tags, healthy = build_group(ctx, fam, g)
  getall = {'rsa': paranoid.GetRSAAllChecks, 'ec': paranoid.GetECAllChecks,
            'ecdsa': paranoid.GetECDSAAllChecks}[fam]
  if context == 'warm':
    _warmup(ctx, fam)
  checks = dict(getall())
  names = INDIVIDUAL[fam] + JOINT[fam]
  ctx.sample({'family': fam, 'group': g, 'context': context,
              'artifacts': tags[:10]})

  def emit(name, i, art):
    snap = observe.snapshot(art.test_info)
    ent = observe.entries_dict(snap).get(name)
    ctx.count('evaluations')
    ctx.record({'fam': fam, 'g': g, 'ctx': context, 'check': name, 'i': i,
                'tag': tags[i], 'entry': ent,
                'evidence': observe.evidence(snap)})

  for name in names:
    if name not in checks:
      ctx.violation('active-check-missing', name, None)
      continue
    chk = checks[name]
    try:
      if context in ('alone-seq', 'alone-rev'):
        if name in JOINT[fam] and fam != 'ecdsa' and False:
          continue
        order = list(range(len(protos)))
        if context == 'alone-rev':
          order.reverse()
        for i in order:
          a = _copies([protos[i]])
          chk.Check(a)
          emit(name, i, a[0])
      else:
        order = list(range(len(protos)))
        extra = []
        if context in ('perm1', 'perm2'):
          _order(ctx, fam, '%s/%d/%s' % (context, g, name)).shuffle(order)
        if context == 'plus-healthy':
          extra = _copies(healthy)
        if context == 'shrink-grow':
          # non-monotone batch sizes on the same singletons: the whole batch,
          # then one artifact, then half of the batch (verdicts of the last
          # call are recorded)
          if name in JOINT[fam]:
            continue
          chk.Check(_copies(protos))
          chk.Check(_copies(protos[:1]))
          order = order[:max(2, len(order) // 2)]
        if context == 'foreign-first':
          # the artifacts of one curve behind a single artifact of another
          # curve (sub-list indexes differ from batch indexes by one)
          def cid(a):
            return (a.ec_info if fam == 'ec' else a.issuer_key_info).curve_type
          if fam == 'rsa':
            order = order[1:] + order[:1]
          else:
            c0 = cid(protos[0])
            other = [i for i in order if cid(protos[i]) != c0]
            order = other[:1] + [i for i in order if cid(protos[i]) == c0]
        batch = _copies([protos[i] for i in order])
        full = batch + extra
        if extra:
          # healthy neighbours in front, in the middle and at the end
          full = extra[:1] + batch[:len(batch) // 2] + extra[1:2] + \
              batch[len(batch) // 2:] + extra[2:]
        chk.Check(full)
        for i, a in zip(order, batch):
          emit(name, i, a)
    except Exception as e:  # pylint: disable=broad-except
      ctx.violation('check-raised-%s@%s' % (type(e).__name__, name),
                    '%s in context %s: %r' % (name, context, e),
                    {'family': fam, 'group': g, 'context': context})


# ------------------------------------------------------------ offline checker

def finalize(agg, tier):
  viol, inc = [], []
  by = {}
  for shard, r in agg['records']:
    by.setdefault((r['fam'], r['g'], r['check'], r['i']), {})[r['ctx']] = r
  compared = positives = 0
  seen_mech = {}
  for (fam, g, check, i), ctxs in sorted(by.items()):
    individual = check in INDIVIDUAL[fam]
    use = CONTEXTS if individual else BATCH_CONTEXTS + (
        ['foreign-first'] if check in SUBBATCH_OK else [])
    recs = [(c, ctxs[c]) for c in use if c in ctxs]
    if len(recs) < 2:
      continue
    compared += 1
    if any(r['entry'] and r['entry'][0] for _, r in recs) or any(
        t in recs[0][1]['tag'] for t in ('zone', 'edge', 'outside', 'dup',
                                         'plusp', 'shared')):
      agg['digests'].add('%s/%d/%s/%d' % (fam, g, check, i))
    ref_c, ref = recs[0]
    if any(r['entry'] and r['entry'][0] for _, r in recs):
      positives += 1
    for c, r in recs[1:]:
      same_entry = r['entry'] == ref['entry']
      ev_keys = ['DISCRETE_LOG', 'DISCRETE_LOG_DIFF'] if fam != 'rsa' else [
          'N_FACTORS', 'N-1_FACTORS']
      same_ev = all(r['evidence'].get(k) == ref['evidence'].get(k)
                    for k in ev_keys if k != 'DISCRETE_LOG_DIFF')
      # the difference relation names *a* partner: compare presence only
      same_ev = same_ev and (('DISCRETE_LOG_DIFF' in r['evidence']) == (
          'DISCRETE_LOG_DIFF' in ref['evidence']))
      if same_entry and same_ev:
        continue
      tag = r['tag']
      mech = 'verdict-depends-on-context@%s' % check
      if check == 'CheckWeakECPrivateKey' and 'overreach-zone' in tag:
        mech = 'weak-ec-key-overreach-zone-depends-on-context'
      elif check == 'CheckECKeySmallDifference' and (
          'overreach-zone' in tag or 'structured-edge' in tag):
        # the pair (2^32 - 1, 2^32 + r): r + 1 is above max_diff = 2^8 by
        # construction unless r < 255; found only through the extra reach of
        # a larger cached table (same root cause as F6)
        mech = 'small-difference-overreach-zone-depends-on-context'
      elif check in ('CheckNonceMSB', 'CheckNonceCommonPrefix',
                     'CheckNonceCommonPostfix', 'CheckNonceGeneralized') and (
                         'biased' in tag):
        mech = 'lattice-sporadic-miss-depends-on-order'
      n = seen_mech.get(mech, 0)
      seen_mech[mech] = n + 1
      if n < 3:
        viol.append({'mech': mech, 'msg': '%s on %s artifact %d (%s) of group '
                     '%d: %s -> entry %r evidence %r ; %s -> entry %r evidence '
                     '%r' % (check, fam, i, tag, g, ref_c, ref['entry'],
                             _short(ref['evidence']), c, r['entry'],
                             _short(r['evidence'])),
                     'data': {'family': fam, 'group': g, 'check': check,
                              'artifact': i, 'contexts': [ref_c, c]}})
  agg['counters']['verdict_groups_compared'] = compared
  agg['counters']['verdict_groups_with_positive'] = positives
  for m, n in seen_mech.items():
    agg['viol_mechs'][m] = n
  if compared < 50:
    inc.append('only %d verdict groups compared' % compared)
  if positives < 10:
    inc.append('only %d compared verdict groups were positive' % positives)
  if not agg['counters'].get('warmup_runs'):
    inc.append('no warm-up context ran')
  if not agg['counters'].get('filler_sweep_verdicts'):
    inc.append('no filler sweep ran')
  return viol, inc


def _short(ev):
  return {k: (str(v)[:40]) for k, v in ev.items()}
