"""C20 - bundled generators return exactly the requested bits, reproducibly.
Range contract + repetition/interleaving history monitor + stream models."""
from vp.models import prng

ID = 'C20'
RULE = ('(plus: the same (n, seed) asked of every generator in a different '
        'order per shard, values compared across shards in the parent) '
        'one evaluation = one RandomBits(n, seed=s) call checked for type and '
        'range, re-issued after other generators ran (purity), and compared '
        'with the java.util.Random / truncated-LCG stream model where one '
        'exists; distinct by (generator, n, seed); non-trivial = every case')
ASSUMPTIONS = ['java model follows the Java SE specification of Random and '
               'BigInteger(numBits, rnd); truncated-LCG model: state 2k bits, '
               'upper k bits out, ceil(k/8)-byte little-endian chunks, '
               "L'Ecuyer multipliers",
               'generators without a model (xorshift family, mwc, numpy, ...) '
               'are only range- and purity-checked']
EXHAUSTIVE_SUBSPACES = ['every n in 1..300 (thorough 1..2048) for every '
                        'registered generator name']
SLOW = ('lcgnist', 'subsetsum')


def plan(tier, seed):
  q = tier == 'quick'
  return [{'shard': 'gens-%d' % i, 'part': i, 'parts': 16,
           'nmax': 300 if q else 2048, 'extra': 40 if q else 400}
          for i in range(16)]


def _ns(rng, spec, name):
  ns = list(range(1, spec['nmax'] + 1))
  if spec['nmax'] < 2048:
    ns += [n for n in range(301, 2049) if n % 64 in (0, 1, 31, 32, 33, 63)
           or n % 8 == rng.below(8) and rng.chance(1, 6)]
  big = [rng.randint(2049, 70000) for _ in range(spec['extra'])]
  big += [8 * rng.randint(300, 4000) + r for r in range(8)]
  big += [64 * rng.randint(40, 600) + r for r in (0, 1, 31, 32, 33, 63)]
  if name.startswith(SLOW):
    ns = [n for n in ns if n <= 600]
    big = [n for n in big if n < 6000][:6]
  return ns + big


def run(ctx, spec):
  from paranoid_crypto.lib.randomness_tests import rng as rrng
  r = ctx.rng('c20')
  names = rrng.RngNames()
  # non-zero seeds incl. values whose low 32/48/64/160 bits are all zero (the
  # generators reduce or split the seed at those widths)
  seeds = [1, 2, 2 ** 31, 2 ** 63, 2 ** 64 + 1, 2 ** 160 + 5, 2 ** 64,
           3 * 2 ** 64, 2 ** 128, 2 ** 160, 2 ** 32, 2 ** 48,
           0xDEADBEEF << 64, 2 ** 31 - 1, 2 ** 192 + 2 ** 64, 2 ** 31 - 2,
           (2 ** 64 - 742) * 2 ** 64 - 1, 5 << 160]
  last = {}
  for gi, name in enumerate(names):
    g = rrng.GetRng(name)
    ignores_seed = name == 'urandom' or name.startswith('subsetsum')
    ns = _ns(r.fork(name), spec, name)
    for idx, n in enumerate(ns):
      if (idx + gi) % spec['parts'] != spec['part']:
        continue
      seed = seeds[idx % len(seeds)] if idx % 3 else r.bits(
          r.choice([16, 48, 64, 200])) + 1
      if not ctx.want('%s/%d/%d' % (name, n, seed)):
        continue
      ctx.count('evaluations')
      ctx.count('gen:' + name)
      ctx.distinct(name, n, seed)
      try:
        v = g.RandomBits(n, seed=seed)
      except Exception as e:  # pylint: disable=broad-except
        ctx.violation('randombits-raised-%s@%s' % (type(e).__name__, name),
                      '%s.RandomBits(%d, seed=%d) raised %r' % (name, n, seed, e),
                      {'name': name, 'n': n, 'seed': seed})
        continue
      model = None
      if name == 'java':
        model = prng.java_biginteger(n, seed)
      elif name.startswith('trunclcg'):
        model = prng.trunc_lcg_bits(int(name[8:]), seed, n)
      if type(v) is not int or not 0 <= v < (1 << n):
        mech = 'out-of-range@%s' % name
        if name.startswith('trunclcg') and type(v) is int and n % 8:
          # mechanism recognition for the known finding: little-endian buffer
          # whose *first* (least significant) byte got the mask
          full = int.from_bytes(prng.trunc_lcg_stream(
              int(name[8:]), seed, (n + 7) // 8), 'little')
          low_masked = (full & ~0xff) | (full & 0xff & ((1 << (n % 8)) - 1))
          if v == low_masked:
            mech = 'trunclcg-masks-least-significant-byte'
        ctx.violation(mech, '%s.RandomBits(%d, seed=%d) = %r (type %s) is not '
                      'an int in [0, 2^%d)' % (name, n, seed, v if type(v) is
                                               int and n < 300 else '...',
                                               type(v).__name__, n),
                      {'name': name, 'n': n, 'seed': seed})
      elif model is not None:
        ctx.count('model_comparisons')
        if v != model:
          mech = 'stream-differs-from-model@%s' % name
          if name.startswith('trunclcg') and n % 8:
            full = int.from_bytes(prng.trunc_lcg_stream(
                int(name[8:]), seed, (n + 7) // 8), 'little')
            if v == (full & ~0xff) | (full & 0xff & ((1 << (n % 8)) - 1)):
              mech = 'trunclcg-masks-least-significant-byte'
          ctx.violation(mech, '%s.RandomBits(%d, seed=%d) differs from the '
                        'modelled generator stream' % (name, n, seed),
                        {'name': name, 'n': n, 'seed': seed})
      # purity: same call again later, after other generators / other n ran
      key = (name, n, seed)
      last[key] = v
      if len(last) >= 24:
        _recheck(ctx, rrng, last, r)
        last = {}
  _recheck(ctx, rrng, last, r)
  _ladders(ctx, spec, rrng, r, names)
  _siblings(ctx, spec, rrng, names)
  try:
    ctx.sample({'generator': names[spec['part'] % len(names)], 'n': n,
                'seed': seed})
  except NameError:
    pass


def _ladders(ctx, spec, rrng, r, names):
  """One seed, many sizes, on the registry instance: ascending, then (after a
  call with another seed) descending.  A request must not depend on which
  sizes were requested for the same seed before it."""
  for gi, name in enumerate(names):
    if name == 'urandom' or name.startswith('subsetsum'):
      continue
    for rep in range(2 if ctx.tier == 'quick' else 8):
      if (gi + rep) % 4 != spec['part'] % 4:
        continue
      seed = r.bits(r.choice([16, 48, 64])) + 1
      if not ctx.want('ladder/%s/%d' % (name, seed)):
        continue
      sizes = set()
      while len(sizes) < 10:
        k = r.randint(1, 9)
        sizes.add(max(1, r.choice([32 * k - r.below(8), 8 * k - r.below(8),
                                   32 * k, r.randint(1, 300)])))
      sizes = sorted(sizes)
      g = rrng.GetRng(name)
      try:
        asc = [g.RandomBits(n, seed=seed) for n in sizes]
        g.RandomBits(64, seed=seed + 1)
        desc = [g.RandomBits(n, seed=seed) for n in reversed(sizes)][::-1]
        mixed = [rrng.GetRng(name).RandomBits(n, seed=seed) for n in
                 sizes[::2] + sizes[1::2]]
        mixed = dict(zip(sizes[::2] + sizes[1::2], mixed))
      except Exception as e:  # pylint: disable=broad-except
        ctx.violation('randombits-raised-%s@%s' % (type(e).__name__, name),
                      repr(e), {'name': name, 'seed': seed, 'sizes': sizes})
        continue
      ctx.count('same_seed_ladders')
      for n, a, d in zip(sizes, asc, desc):
        ctx.count('evaluations')
        ctx.count('ladder_comparisons')
        ctx.distinct('ladder', name, n, seed)
        model = None
        if name == 'java':
          model = prng.java_biginteger(n, seed)
        elif name.startswith('trunclcg') and n % 8 == 0:
          model = prng.trunc_lcg_bits(int(name[8:]), seed, n)
        vals = {a, d, mixed[n]} | ({model} if model is not None else set())
        if len(vals) > 1:
          ctx.violation('depends-on-earlier-sizes-for-same-seed@%s' % name,
                        '%s.RandomBits(%d, seed=%d): ascending ladder %x, '
                        'descending ladder %x, interleaved %x%s; sizes %r' % (
                            name, n, seed, a, d, mixed[n], '' if model is None
                            else ', model %x' % model, sizes),
                        {'name': name, 'n': n, 'seed': seed, 'sizes': sizes})


SIB_NS = (64, 777, 4089, 4096, 4099, 8192, 20000, 65536)
SIB_SEEDS = (1, 2 ** 64 + 1, 0xC0FFEE)


def _siblings(ctx, spec, rrng, names):
  """The same (n, seed) asked of every generator, in an order that differs
  per shard (rotation by the shard number, reversed for odd shards).  The
  values go to the parent, which demands that a generator's value does not
  depend on which other generators served the same arguments before it."""
  import hashlib
  order = [x for x in names if not x.startswith(SLOW)]
  k = spec['part'] % len(order)
  order = order[k:] + order[:k]
  if spec['part'] % 2:
    order.reverse()
  for seed in SIB_SEEDS:
    for n in SIB_NS:
      for name in order:
        if not ctx.want('sib/%s/%d/%d' % (name, n, seed)):
          continue
        try:
          v = rrng.GetRng(name).RandomBits(n, seed=seed)
        except Exception as e:  # pylint: disable=broad-except
          ctx.violation('randombits-raised-%s@%s' % (type(e).__name__, name),
                        repr(e), {'name': name, 'n': n, 'seed': seed})
          continue
        ctx.count('sibling_calls')
        ctx.record({'name': name, 'n': n, 'seed': seed, 'pos': order.index(
            name), 'h': hashlib.blake2b(repr(v).encode(),
                                        digest_size=12).hexdigest()})


def _recheck(ctx, rrng, last, r):
  """Re-issues recorded calls in a different order (interleaving)."""
  keys = list(last)
  r.shuffle(keys)
  # unseeded calls in between: they must not disturb seeded results
  for name in {k[0] for k in keys}:
    try:
      rrng.GetRng(name).RandomBits(r.choice([1, 8, 64, 200]))
      ctx.count('unseeded_calls_interleaved')
    except Exception as e:  # pylint: disable=broad-except
      ctx.violation('unseeded-randombits-raised-%s@%s' % (
          type(e).__name__, name), repr(e), {'name': name})
  for (name, n, seed) in keys:
    ctx.count('evaluations')
    ctx.count('purity_rechecks')
    try:
      v2 = rrng.GetRng(name).RandomBits(n, seed=seed)
    except Exception as e:  # pylint: disable=broad-except
      ctx.violation('randombits-raised-%s@%s' % (type(e).__name__, name),
                    repr(e), {'name': name, 'n': n, 'seed': seed})
      continue
    if v2 != last[(name, n, seed)]:
      ign = name == 'urandom' or name.startswith('subsetsum')
      base = 'subsetsum' if name.startswith('subsetsum') else name
      ctx.violation(('seed-ignored-by-design@%s' if ign else
                     'not-reproducible@%s') % base,
                    '%s.RandomBits(%d, seed=%d) returned two different values '
                    'for the same arguments' % (name, n, seed),
                    {'name': name, 'n': n, 'seed': seed})


def finalize(agg, tier):
  c = agg['counters']
  inc = ['reach counter %s is zero' % k for k in (
      'model_comparisons', 'purity_rechecks', 'unseeded_calls_interleaved',
      'same_seed_ladders',
      'gen:java', 'gen:trunclcg64',
      'gen:mt19937', 'gen:pcg64', 'sibling_calls') if not c.get(k)]
  viol, by = [], {}
  for shard, r in agg['records']:
    by.setdefault((r['name'], r['n'], r['seed']), []).append((shard, r))
  compared = 0
  for (name, n, seed), recs in sorted(by.items(), key=repr):
    if name == 'urandom' or name.startswith('subsetsum') or len(recs) < 2:
      continue
    compared += 1
    ref_shard, ref = recs[0]
    for shard, r in recs[1:]:
      if r['h'] != ref['h']:
        viol.append({'mech': 'depends-on-other-generators@%s' % name,
                     'msg': '%s.RandomBits(%s, seed=%s) differs between shard '
                     '%s (called as number %d of the generators for these '
                     'arguments) and shard %s (number %d)' % (
                         name, n, seed, ref_shard, ref['pos'], shard,
                         r['pos']),
                     'data': {'name': name, 'n': n, 'seed': seed,
                              'shards': [ref_shard, shard]}})
        break
  c['sibling_comparisons'] = compared
  if not compared:
    inc.append('no sibling comparison across shards')
  return viol, inc
