"""C11 - EC arithmetic is the group law on every input.  Reference-model
monitor: every public EcCurve operation is executed next to the textbook
affine law (vp.models.ec) and compared."""
import itertools
import math

from vp.models import ec as mec

ID = 'C11'
RULE = ('each evaluation is one call of a public EcCurve operation compared '
        'with the affine chord-and-tangent model; distinct by (curve, op, '
        'operands); non-trivial = at least one operand is not the identity')
ASSUMPTIONS = ['model: affine law over Python ints with pow(x,-1,p)',
               'primality of p and n by gmpy2.is_prime (50 rounds) is trusted',
               'OpenSSL (cryptography) is an independent oracle for k*G on the '
               'curves it supports']
EXHAUSTIVE_SUBSPACES = [
    'all pairs of points (incl. infinity) of each tiny prime-order curve for '
    'Add/Subtract/AddJacobian; all points for Double/Negate/DoubleJacobian',
    'all scalars in [-n-2, 2n+2] for Multiply/MultiplyAffine/BatchMultiplyG on '
    'the tiny curves',
    'all lists of length <= 3 (thorough 4) over a 12-point special alphabet '
    'for every batched operation']

NAMED = ['CURVE_SECP192R1', 'CURVE_SECP224R1', 'CURVE_SECP256R1',
         'CURVE_SECP384R1', 'CURVE_SECP521R1', 'CURVE_SECP256K1',
         'CURVE_BRAINPOOLP256R1', 'CURVE_BRAINPOOLP384R1',
         'CURVE_BRAINPOOLP512R1']


def plan(tier, seed):
  q = tier == 'quick'
  specs = []
  for i in range(4 if q else 10):
    specs.append({'shard': 'tiny-%d' % i, 'pmin': 150 if q else 300,
                  'pmax': 330 if q else 1100, 'a3': i % 2 == 0, 'weight': 3})
  for i in range(3 if q else 6):
    specs.append({'shard': 'batch-%d' % i, 'maxlen': 3 if q else 4,
                  'a3': i % 2 == 0, 'weight': 2 if q else 8})
  for name in NAMED:
    specs.append({'shard': 'named-' + name, 'curve': name,
                  'n': 60 if q else 600})
  specs.append({'shard': 'consts'})
  for i in range(2 if q else 6):
    specs.append({'shard': 'cross-%d' % i, 'rounds': 2 if q else 5, 'weight': 4})
  return specs


def R2M(P):
  """repo point -> model point."""
  if P is None:
    return 'BAD'
  if P[0] is None and P[1] is None:
    return mec.INF
  return (int(P[0]), int(P[1]))


def M2R(P):
  return (None, None) if P is mec.INF else P


def make_repo_curve(c, a_literal=None):
  from paranoid_crypto.lib import ec_util
  a = c.a if a_literal is None else a_literal
  return ec_util.EcCurve(c.name, a, c.b, c.p, c.g[0], c.g[1], c.n)


class Cmp:
  """Compares a repo result with the model and records violations."""

  def __init__(self, ctx, cname):
    self.ctx, self.cname = ctx, cname

  def pt(self, op, got, want, operands):
    self.ctx.count('evaluations')
    self.ctx.count('op:' + op)
    g = R2M(got)
    if g != want:
      self.ctx.violation('%s-differs-from-group-law' % op,
                         '%s%r on %s = %r, group law %r' %
                         (op, operands, self.cname, g, want),
                         {'curve': self.cname, 'op': op, 'operands': operands})

  def val(self, op, got, want, operands):
    self.ctx.count('evaluations')
    self.ctx.count('op:' + op)
    if got != want:
      self.ctx.violation('%s-differs-from-group-law' % op,
                         '%s%r on %s = %r, want %r' %
                         (op, operands, self.cname, got, want),
                         {'curve': self.cname, 'op': op, 'operands': operands})


def call(ctx, op, f, *a):
  try:
    return f(*a)
  except Exception as e:  # pylint: disable=broad-except
    ctx.count('evaluations')
    ctx.violation('%s-raised-%s' % (op, type(e).__name__),
                  '%s%r raised %r' % (op, a, e), {'op': op, 'args': a})
    return None


def to_jac(rng, P, p):
  if P is mec.INF:
    z = 0
    l = rng.randint(1, p - 1)
    return (l * l % p, l * l * l % p, 0)
  z = rng.randint(1, p - 1)
  return (P[0] * z * z % p, P[1] * z * z * z % p, z)


def run_tiny(ctx, spec):
  rng = ctx.rng('tiny')
  mc = mec.tiny_curves(rng, 1, spec['pmin'], spec['pmax'],
                       a_minus3=spec['a3'])[0]
  # a == -3 literal exercises the dedicated doubling branch; p-3 the general
  for a_lit in ([-3, mc.p - 3] if spec['a3'] else [mc.a]):
    rc = make_repo_curve(mc, a_lit)
    cmp_ = Cmp(ctx, '%s(a=%d)' % (mc.name, a_lit))
    pts = [mec.INF] + mc.points()
    ctx.sample({'curve': mc.name, 'a_literal': a_lit, 'order': mc.n,
                'points': len(pts)})
    for P in pts:
      if not ctx.want(mc.name):
        continue
      rp = M2R(P)
      cmp_.pt('Double', call(ctx, 'Double', rc.Double, rp), mc.dbl(P), (P,))
      cmp_.pt('Negate', call(ctx, 'Negate', rc.Negate, rp), mc.neg(P), (P,))
      cmp_.val('OnCurve', call(ctx, 'OnCurve', rc.OnCurve, rp), True, (P,))
      jp = to_jac(rng, P, mc.p)
      dj = call(ctx, 'DoubleJacobian', rc.DoubleJacobian, jp)
      if dj is not None:
        cmp_.pt('DoubleJacobian', call(ctx, 'JacobianToAffine',
                                       rc.JacobianToAffine, dj),
                mc.dbl(P), (jp,))
      cmp_.pt('AffineToJacobian', call(
          ctx, 'JacobianToAffine', rc.JacobianToAffine,
          rc.AffineToJacobian(rp)), P, (P,))
      if P is not mec.INF:
        ctx.distinct(mc.name, a_lit, 'P', P)
      for Q in pts:
        rq = M2R(Q)
        s = mc.add(P, Q)
        cmp_.pt('Add', call(ctx, 'Add', rc.Add, rp, rq), s, (P, Q))
        cmp_.pt('Subtract', call(ctx, 'Subtract', rc.Subtract, rp, rq),
                mc.sub(P, Q), (P, Q))
        jq = to_jac(rng, Q, mc.p)
        aj = call(ctx, 'AddJacobian', rc.AddJacobian, jp, jq)
        if aj is not None:
          cmp_.pt('AddJacobian', call(ctx, 'JacobianToAffine',
                                      rc.JacobianToAffine, aj), s, (jp, jq))
    ctx.count('distinct_pairs', len(pts) * len(pts))
    # scalar multiplication: every scalar for G and a few other points, a few
    # scalars for every point
    n = mc.n
    bases = [mc.g] + [pts[1 + rng.below(len(pts) - 1)] for _ in range(3)]
    for P in bases:
      acc = mc.mul(P, -n - 2)
      for k in range(-n - 2, 2 * n + 3):
        rp = M2R(P)
        cmp_.pt('Multiply', call(ctx, 'Multiply', rc.Multiply, rp, k), acc,
                (P, k))
        cmp_.pt('MultiplyAffine', call(ctx, 'MultiplyAffine',
                                       rc.MultiplyAffine, rp, k), acc, (P, k))
        acc = mc.add(acc, P)
      ctx.distinct(mc.name, a_lit, 'mul-all', P)
    for P in pts:
      for k in (0, 1, -1, 2, n - 1, n, n + 1, rng.randint(2, 5 * n)):
        cmp_.pt('Multiply', call(ctx, 'Multiply', rc.Multiply, M2R(P), k),
                mc.mul(P, k), (P, k))
    # BatchMultiplyG: all scalars at once, and in odd-sized chunks
    scalars = list(range(-n - 2, 2 * n + 3))
    want = []
    acc = mc.mul(mc.g, -n - 2)
    for k in scalars:
      want.append(acc)
      acc = mc.add(acc, mc.g)
    got = call(ctx, 'BatchMultiplyG', rc.BatchMultiplyG, scalars)
    if got is not None:
      for k, g_, w in zip(scalars, got, want):
        cmp_.pt('BatchMultiplyG', g_, w, (k,))
    rng.shuffle(scalars)
    for i in range(0, len(scalars), 37):
      ch = scalars[i:i + 37]
      got = call(ctx, 'BatchMultiplyG', rc.BatchMultiplyG, ch)
      if got is not None:
        for k, g_ in zip(ch, got):
          cmp_.pt('BatchMultiplyG', g_, mc.mul(mc.g, k), (k,))
    # singleton and tiny batches (a batch of even / short scalars has no bit
    # in the lowest comb column: nothing in a large mixed batch shows that)
    steps = (n.bit_length() + 7) // 8
    for k in range(-n - 2, 2 * n + 3):
      got = call(ctx, 'BatchMultiplyG', rc.BatchMultiplyG, [k])
      if got is not None:
        cmp_.pt('BatchMultiplyG', got[0], mc.mul(mc.g, k), ([k],))
    for k in range(0, 2 * n + 3, 2):
      for batch in ([k, 2 * k], [k, k + 2, k + 4], [4 * k, 2 * k, 8 * k],
                    [k << steps, k]):
        got = call(ctx, 'BatchMultiplyG', rc.BatchMultiplyG, list(batch))
        if got is not None:
          cmp_.val('BatchMultiplyG', [R2M(v) for v in got],
                   [mc.mul(mc.g, x) for x in batch], (batch,))
    # PointSequence / PointTable
    for base in bases[:2]:
      for cnt in (1, 2, 3, n - 1, n, n + 3):
        seq = call(ctx, 'PointSequence', rc.PointSequence, M2R(base), cnt)
        if seq is not None:
          cmp_.val('PointSequence', [R2M(v) for v in seq],
                   [mc.mul(base, i) for i in range(cnt)], (base, cnt))
      for cnt in (1, 2, 5, 16, n // 2, n - 1):
        tab = call(ctx, 'PointTable', rc.PointTable, M2R(base), cnt)
        if tab is None:
          continue
        # every i < cnt must be represented by its x-coordinate (None for
        # infinity) and every entry x -> i must be true: x(i*base) == x.  The
        # implementation may hold entries for a few i >= cnt (it rounds the
        # table up), which is harmless and accepted.
        ok = True
        keys = {None if k is None else int(k): int(v) for k, v in tab.items()}
        for i in range(cnt):
          Q = mc.mul(base, i)
          if (None if Q is mec.INF else Q[0]) not in keys:
            ok = False
        for x, i in keys.items():
          Q = mc.mul(base, i)
          if (None if Q is mec.INF else Q[0]) != x:
            ok = False
        cmp_.val('PointTable', ok, True, (base, cnt))


ALPHA_DOC = '{inf, P, -P, 2P, Q, -Q, P+Q, P-Q, G, -G, 2Q, random}'


def run_batch(ctx, spec):
  rng = ctx.rng('batch')
  mc = mec.tiny_curves(rng, 1, 150, 400, a_minus3=spec['a3'])[0]
  rc = make_repo_curve(mc, -3 if spec['a3'] else None)
  cmp_ = Cmp(ctx, mc.name)
  pts = mc.points()
  P, Q = pts[rng.below(len(pts))], pts[rng.below(len(pts))]
  alpha = [mec.INF, P, mc.neg(P), mc.dbl(P), Q, mc.neg(Q), mc.add(P, Q),
           mc.sub(P, Q), mc.g, mc.neg(mc.g), mc.dbl(Q),
           pts[rng.below(len(pts))]]
  try:
    ctx.sample({'curve': mc.name, 'alphabet': ALPHA_DOC, 'P': P, 'Q': Q})
  except NameError:
    pass
  p = mc.p
  for ln in range(0, spec['maxlen'] + 1):
    for lst in itertools.product(range(len(alpha)), repeat=ln):
      L = [alpha[i] for i in lst]
      RL = [M2R(v) for v in L]
      special = 0
      # single point + list
      for base in (P, mec.INF, Q) if ln <= 2 else (P,):
        rb = M2R(base)
        want = [mc.add(base, v) for v in L]
        special += sum(1 for v in L if v is mec.INF or (
            base is not mec.INF and v[0] == base[0]))
        got = call(ctx, 'BatchAdd', rc.BatchAdd, rb, list(RL))
        if got is not None:
          cmp_.val('BatchAdd', [R2M(v) for v in got], want, (base, lst))
        got = call(ctx, 'BatchAddX', rc.BatchAddX, rb, list(RL))
        if got is not None:
          cmp_.val('BatchAddX', [None if v is None else int(v) for v in got],
                   [None if w is mec.INF else w[0] for w in want], (base, lst))
        got = call(ctx, 'BatchAddSubtractX', rc.BatchAddSubtractX, rb, list(RL))
        if got is not None:
          wd = [mc.sub(base, v) for v in L]
          cmp_.val('BatchAddSubtractX',
                   ([None if v is None else int(v) for v in got[0]],
                    [None if v is None else int(v) for v in got[1]]),
                   ([None if w is mec.INF else w[0] for w in want],
                    [None if w is mec.INF else w[0] for w in wd]), (base, lst))
      got = call(ctx, 'BatchDouble', rc.BatchDouble, list(RL))
      if got is not None:
        cmp_.val('BatchDouble', [R2M(v) for v in got], [mc.dbl(v) for v in L],
                 (lst,))
      # list + rotated list / reversed list
      for L2 in (L[::-1], L[1:] + L[:1]):
        got = call(ctx, 'BatchAddList', rc.BatchAddList, list(RL),
                   [M2R(v) for v in L2])
        if got is not None:
          cmp_.val('BatchAddList', [R2M(v) for v in got],
                   [mc.add(x, y) for x, y in zip(L, L2)], (lst, 'perm'))
      JL = [to_jac(rng, v, p) for v in L]
      got = call(ctx, 'BatchJacobianToAffine', rc.BatchJacobianToAffine,
                 list(JL))
      if got is not None:
        cmp_.val('BatchJacobianToAffine', [R2M(v) for v in got], L, (lst,))
      got = call(ctx, 'BatchJacobianToX', rc.BatchJacobianToX, list(JL))
      if got is not None:
        cmp_.val('BatchJacobianToX', [None if v is None else int(v)
                                      for v in got],
                 [None if v is mec.INF else v[0] for v in L], (lst,))
      vals = [None if v is mec.INF else (v[0] - P[0]) % p for v in L]
      got = call(ctx, 'BatchInverse', rc.BatchInverse, list(vals))
      if got is not None:
        cmp_.val('BatchInverse', [None if v is None else int(v) for v in got],
                 [None if not v else pow(v, -1, p) for v in vals], (lst,))
      if special:
        ctx.count('lists_with_zero_denominator')
      if ln:
        ctx.distinct(mc.name, lst)
  try:
    rc.BatchAddList([M2R(P)], [])
    ctx.violation('BatchAddList-length-mismatch-accepted', 'no ValueError', None)
  except ValueError:
    ctx.count('length_mismatch_rejected')


def run_named(ctx, spec):
  from paranoid_crypto import paranoid_pb2
  from paranoid_crypto.lib import ec_util
  rng = ctx.rng('named')
  rc = ec_util.CURVE_FACTORY[getattr(paranoid_pb2.CurveType, spec['curve'])]
  mc = mec.Curve(int(rc.mod), int(rc.a), int(rc.b), (int(rc.g[0]), int(rc.g[1])),
                 int(rc.n), spec['curve'])
  cmp_ = Cmp(ctx, spec['curve'])
  n, p, G = mc.n, mc.p, mc.g
  bits = n.bit_length()
  steps = (bits + 7) // 8
  scal = [0, 1, -1, 2, 3, n - 2, n - 1, n, n + 1, 2 * n - 1, 2 * n, -n, -n - 1,
          2 ** bits, 2 ** bits - 1, 2 ** (bits - 1), 2 ** (bits - 1) - 1,
          2 ** (bits + 1)]
  for j in (1, 2, 7, 8):
    for d in (-1, 0, 1):
      scal += [2 ** (j * steps + d), 2 ** (j * steps + d) - 1]
  scal += [sum(1 << j for j in range(0, bits, steps)),
           sum(1 << j for j in range(steps - 1, bits, steps))]
  scal += [rng.below(n) for _ in range(spec['n'])]
  scal += [rng.bits(rng.randint(1, bits + 40)) * rng.choice([1, -1])
           for _ in range(spec['n'] // 4)]
  try:
    ctx.sample({'curve': spec['curve'], 'scalars': len(scal),
                'example_scalar': scal[-1]})
  except NameError:
    pass
  # k*G through every route
  want = [mc.mulg(k) for k in scal]
  got = call(ctx, 'BatchMultiplyG', rc.BatchMultiplyG, list(scal))
  for i, k in enumerate(scal):
    ctx.distinct(spec['curve'], 'k', k)
    cmp_.pt('Multiply', call(ctx, 'Multiply', rc.Multiply, rc.g, k), want[i],
            ('G', k))
    if got is not None:
      cmp_.pt('BatchMultiplyG', got[i], want[i], (k,))
    if i < 40:
      cmp_.pt('MultiplyAffine', call(ctx, 'MultiplyAffine', rc.MultiplyAffine,
                                     rc.g, k), want[i], ('G', k))
  # singletons and small batches of even / short / column-aligned scalars
  mask = sum(1 << j for j in range(0, bits, steps))
  small = [[2], [4], [6], [2, 4, 8], [n + 2], [1 << (steps - 1)], [1 << steps],
           [2, 1], [rng.below(n) & ~mask], [rng.below(n) & ~mask,
                                            rng.below(n) & ~mask],
           [(rng.below(n) & ~mask) | 2], [2 * rng.below(2 ** 30)],
           [mask], [mask << 1], [0], [0, 0], [n], [n, 2 * n]]
  small += [[k] for k in scal[:60]]
  for batch in small:
    got = call(ctx, 'BatchMultiplyG', rc.BatchMultiplyG, list(batch))
    if got is not None:
      cmp_.val('BatchMultiplyG', [R2M(v) for v in got],
               [mc.mulg(x) for x in batch], (batch, 'small-batch'))
  ctx.count('small_batches', len(small))
  # again with a warm cache and in a different grouping (cache is state)
  for i in range(0, len(scal), 11):
    ch = scal[i:i + 11][::-1]
    got = call(ctx, 'BatchMultiplyG', rc.BatchMultiplyG, list(ch))
    if got is not None:
      for k, g_ in zip(ch, got):
        cmp_.pt('BatchMultiplyG', g_, mc.mulg(k), (k, 'warm'))
  # OpenSSL cross-check of the model/curve constants for k*G
  try:
    from cryptography.hazmat.primitives.asymmetric import ec as cec
    cname = spec['curve'].replace('CURVE_', '')
    ccls = {'SECP192R1': cec.SECP192R1, 'SECP224R1': cec.SECP224R1,
            'SECP256R1': cec.SECP256R1, 'SECP384R1': cec.SECP384R1,
            'SECP521R1': cec.SECP521R1, 'SECP256K1': cec.SECP256K1,
            'BRAINPOOLP256R1': cec.BrainpoolP256R1,
            'BRAINPOOLP384R1': cec.BrainpoolP384R1,
            'BRAINPOOLP512R1': cec.BrainpoolP512R1}[cname]
    for k in [1, 2, n - 1] + [rng.below(n - 1) + 1 for _ in range(10)]:
      pub = cec.derive_private_key(k, ccls()).public_key().public_numbers()
      cmp_.pt('Multiply(vs OpenSSL)', rc.Multiply(rc.g, k), (pub.x, pub.y),
              ('G', k))
      ctx.count('openssl_crosschecks')
  except Exception as e:  # pylint: disable=broad-except
    ctx.count('openssl_unavailable')
  # point operations on special operands
  special = [mec.INF, G, mc.neg(G), mc.dbl(G), mc.mulg(n - 1), mc.mulg(n - 2),
             mc.mulg(3)]
  special += [mc.mulg(rng.below(n)) for _ in range(6)]
  for P in special:
    rp = M2R(P)
    cmp_.pt('Double', call(ctx, 'Double', rc.Double, rp), mc.dbl(P), (P,))
    cmp_.pt('Negate', call(ctx, 'Negate', rc.Negate, rp), mc.neg(P), (P,))
    jp = to_jac(rng, P, p)
    dj = call(ctx, 'DoubleJacobian', rc.DoubleJacobian, jp)
    if dj is not None:
      cmp_.pt('DoubleJacobian', rc.JacobianToAffine(dj), mc.dbl(P), (P,))
    for Q in special:
      rq = M2R(Q)
      s = mc.add(P, Q)
      ctx.distinct(spec['curve'], 'pair', P, Q)
      cmp_.pt('Add', call(ctx, 'Add', rc.Add, rp, rq), s, (P, Q))
      cmp_.pt('Subtract', call(ctx, 'Subtract', rc.Subtract, rp, rq),
              mc.sub(P, Q), (P, Q))
      aj = call(ctx, 'AddJacobian', rc.AddJacobian, jp, to_jac(rng, Q, p))
      if aj is not None:
        cmp_.pt('AddJacobian', rc.JacobianToAffine(aj), s, (P, Q))
    for k in (0, 1, -1, 2, n - 1, n, n + 1, rng.below(n), -rng.below(n)):
      cmp_.pt('Multiply', call(ctx, 'Multiply', rc.Multiply, rp, k),
              mc.mul(P, k), (P, k))
    # batched with all special cases in one list
    RL = [M2R(v) for v in special]
    got = call(ctx, 'BatchAdd', rc.BatchAdd, rp, list(RL))
    if got is not None:
      cmp_.val('BatchAdd', [R2M(v) for v in got],
               [mc.add(P, v) for v in special], (P, 'special-list'))
    got = call(ctx, 'BatchAddSubtractX', rc.BatchAddSubtractX, rp, list(RL))
    if got is not None:
      cmp_.val('BatchAddSubtractX',
               ([None if v is None else int(v) for v in got[0]],
                [None if v is None else int(v) for v in got[1]]),
               ([None if w is mec.INF else w[0]
                 for w in (mc.add(P, v) for v in special)],
                [None if w is mec.INF else w[0]
                 for w in (mc.sub(P, v) for v in special)]), (P, 'special-list'))
  RL = [M2R(v) for v in special]
  got = call(ctx, 'BatchDouble', rc.BatchDouble, list(RL))
  if got is not None:
    cmp_.val('BatchDouble', [R2M(v) for v in got], [mc.dbl(v) for v in special],
             ('special-list',))
  got = call(ctx, 'BatchAddList', rc.BatchAddList, list(RL), list(RL[::-1]))
  if got is not None:
    cmp_.val('BatchAddList', [R2M(v) for v in got],
             [mc.add(a, b) for a, b in zip(special, special[::-1])],
             ('special-list',))


def run_consts(ctx, spec):
  import gmpy2
  from paranoid_crypto import paranoid_pb2
  from paranoid_crypto.lib import ec_util
  for name in NAMED:
    ct = getattr(paranoid_pb2.CurveType, name)
    rc = ec_util.CURVE_FACTORY.get(ct)
    ctx.count('evaluations')
    if rc is None:
      ctx.violation('named-curve-missing', '%s not in CURVE_FACTORY' % name,
                    {'curve': name})
      continue
    p, a, b, n = int(rc.mod), int(rc.a), int(rc.b), int(rc.n)
    mc = mec.Curve(p, a, b, (int(rc.g[0]), int(rc.g[1])), n, name)
    ctx.distinct('consts', name)
    facts = {
        'p prime': bool(gmpy2.is_prime(p, 50)),
        'n prime': bool(gmpy2.is_prime(n, 50)),
        'non-singular': mc.nonsingular(),
        'G on curve': mc.on_curve(mc.g),
        'G in range': 0 <= mc.g[0] < p and 0 <= mc.g[1] < p,
        'n*G = infinity': mc.mul(mc.g, n) is mec.INF,
        'Hasse (h=1)': abs(n * int(rc.h) - (p + 1)) <= 2 * math.isqrt(p) + 1,
        'h == 1': int(rc.h) == 1,
        'name': rc.name.lower().replace('_', '') == name.replace(
            'CURVE_', '').lower(),
    }
    ctx.count('curve_constant_facts', len(facts))
    for k, ok in facts.items():
      if not ok:
        ctx.violation('curve-constants:%s' % k, '%s: %s is false' % (name, k),
                      {'curve': name})
  try:
    ctx.sample({'curves': NAMED, 'facts': list(facts)})
  except NameError:
    pass
  # binary-field identifiers must be registered as unsupported (None)
  for k, v in paranoid_pb2.CurveType.items():
    if k.startswith('CURVE_SECT'):
      ctx.count('evaluations')
      if ec_util.CURVE_FACTORY.get(v, 'absent') is not None:
        ctx.violation('binary-curve-not-none', '%s maps to %r' % (
            k, ec_util.CURVE_FACTORY.get(v, 'absent')), {'curve': k})


def run_cross(ctx, spec):
  """All named curves inside one process, interleaved: every operation that
  keeps per-curve state (comb cache of BatchMultiplyG, point tables) is asked
  for the same scalars on one curve after the other, twice, in two orders."""
  from paranoid_crypto import paranoid_pb2
  from paranoid_crypto.lib import ec_util
  rng = ctx.rng('cross')
  curves = {}
  for name in NAMED:
    rc = ec_util.CURVE_FACTORY[getattr(paranoid_pb2.CurveType, name)]
    curves[name] = (rc, mec.Curve(int(rc.mod), int(rc.a), int(rc.b),
                                  (int(rc.g[0]), int(rc.g[1])), int(rc.n),
                                  name))
  shared = [1, 2, 3, 5, 255, 256, 2 ** 32, 2 ** 64 + 1, 2 ** 160 - 1] + [
      rng.bits(b) for b in (8, 64, 190, 190, 250, 250, 300)]
  order = list(NAMED)
  for rnd in range(spec['rounds']):
    rng.shuffle(order)
    for name in order:
      if not ctx.want('%d/%s' % (rnd, name)):
        continue
      rc, mc = curves[name]
      cmp_ = Cmp(ctx, name)
      scal = shared + [mc.n - 1, mc.n + 1, rng.below(mc.n)]
      rng.shuffle(scal)
      got = call(ctx, 'BatchMultiplyG', rc.BatchMultiplyG, list(scal))
      ctx.count('cross_curve_calls')
      if got is None:
        continue
      for k, g_ in zip(scal, got):
        ctx.distinct('cross', name, k)
        cmp_.pt('BatchMultiplyG', g_, mc.mulg(k), (k, 'after-other-curves'))
      k = rng.choice(shared)
      cmp_.pt('Multiply', call(ctx, 'Multiply', rc.Multiply, rc.g, k),
              mc.mulg(k), ('G', k, 'after-other-curves'))
      pts = [mc.mulg(x) for x in (3, 70000, 5)]
      res = call(ctx, 'BatchDL', rc.BatchDL, [M2R(P) for P in pts], 2 ** 17)
      if res is not None and [None if v is None else int(v) for v in res] != [
          3, 70000, 5]:
        ctx.violation('cross-curve-batchdl', '%s: BatchDL after searches on '
                      'other curves returned %r' % (name, res), {'curve': name})
  # long argument lists (beyond 256 / 512 entries) on two curves
  for name in rng.sample(NAMED, 2):
    if not ctx.want('long/' + name):
      continue
    rc, mc = curves[name]
    cmp_ = Cmp(ctx, name)
    ks = [rng.below(mc.n) for _ in range(rng.choice([257, 513, 700]))]
    ks[rng.below(len(ks))] = 0
    ks[-1] = ks[0]
    got = call(ctx, 'BatchMultiplyG', rc.BatchMultiplyG, list(ks))
    ctx.count('long_lists')
    if got is not None:
      if len(got) != len(ks):
        ctx.violation('BatchMultiplyG-length', '%d results for %d scalars' % (
            len(got), len(ks)), {'curve': name})
      for k, g_ in zip(ks, got):
        cmp_.pt('BatchMultiplyG', g_, mc.mulg(k), (k, 'long-list'))
  ctx.sample({'curves_in_one_process': len(curves), 'rounds': spec['rounds']})


def run(ctx, spec):
  s = spec['shard']
  if s.startswith('cross'):
    return run_cross(ctx, spec)
  if s.startswith('tiny'):
    run_tiny(ctx, spec)
  elif s.startswith('batch'):
    run_batch(ctx, spec)
  elif s.startswith('named'):
    run_named(ctx, spec)
  else:
    run_consts(ctx, spec)


def finalize(agg, tier):
  c = agg['counters']
  inc = []
  for k in ('op:Add', 'op:AddJacobian', 'op:BatchMultiplyG', 'op:BatchAddList',
            'op:BatchAddSubtractX', 'op:Multiply', 'op:PointTable',
            'lists_with_zero_denominator', 'curve_constant_facts',
            'small_batches', 'cross_curve_calls', 'long_lists',
            'openssl_crosschecks'):
    if not c.get(k):
      inc.append('reach counter %s is zero' % k)
  return [], inc
