"""C04 - RSA keys whose primes are close in a documented sense are always
factored.  Generator-side ground truth (p, q known) next to the responsible
check classes."""
from vp import gen
from vp import rsagen
from vp import workloads

ID = 'C04'
RULE = ('one evaluation = one modulus built by a documented close-prime '
        'generator and submitted to the responsible check class(es); distinct '
        'by modulus; every generated modulus is non-trivial (p != q, both '
        'prime)')
ASSUMPTIONS = ['ground truth from the generator: factored <=> {p, q} is the '
               'recorded factor set',
               'prime sizes are sampled on a grid, not every size 64..2048',
               'unseeded outputs: the cofactor is sized so that the modulus '
               'selects the list of that prime size']
EXHAUSTIVE_SUBSPACES = []


def plan(tier, seed):
  q = tier == 'quick'
  specs = []
  for i in range(4):
    specs.append({'shard': 'fermat-%d' % i, 'n': 50 if q else 300})
  # (constructing a 4096-bit modulus of this family costs about a minute)
  for i in range(4 if q else 10):
    specs.append({'shard': 'hilo-%d' % i, 'n': 30 if q else 45,
                  'timeout': 1500 if q else 3600,
                  'sizes': [256, 512, 1024] + ([] if q else [
                      1024, 2048, 2048, 4096])})
  for i, L in enumerate([384, 512, 768, 1024] + ([] if q else [1536, 2048])):
    specs.append({'shard': 'upperdiff-%d' % L, 'L': L, 'n': 12 if q else 60,
                  'weight': 2})
  for i, ps in enumerate([512, 1024] + ([] if q else [1536, 2048, 4096])):
    for part in range(2):
      specs.append({'shard': 'unseeded-%d-%d' % (ps, part), 'psize': ps,
                    'part': part, 'per': 40 if q else 80, 'weight': 3,
                    'timeout': 1500 if q else 3600})
  return specs


def _factored(key, p, q):
  fac = gen.attached(key.test_info).get('N_FACTORS')
  if not fac:
    return False
  s = set(int(x, 16) for x in eval(fac))  # pylint: disable=eval-used
  return {p, q} <= s


def _check(ctx, chk, n):
  batch, key = workloads.rsa_in_batch(ctx, n)
  try:
    chk.Check(batch)
  except Exception as e:  # pylint: disable=broad-except
    ctx.violation('check-raised-%s@%s' % (type(e).__name__, chk.check_name),
                  repr(e), {'n': n})
  return key


def run_fermat(ctx, spec):
  from paranoid_crypto.lib import rsa_single_checks as rs
  rng = ctx.rng('fermat')
  for i in range(spec['n']):
    bound = rng.choice([0, 1, 2, 10, 1000, 100000])   # 0: nothing may be found
    pbits = rng.choice([64, 65, 96, 128, 256, 333, 512, 1024, 2048])
    k = rng.choice([0, 1, bound - 2, bound - 1, bound, bound + 1, 2 * bound])
    k = max(k, 0)
    if not ctx.want('f%d' % i):
      continue
    got = rsagen.fermat_exact(rng, pbits, max(0, k - max(1, k // 50)),
                              k + max(1, k // 50)) if k > 3 else \
        rsagen.fermat_close(rng, pbits, k)
    if got is None:
      continue
    n, p, q, steps = got
    ctx.count('evaluations')
    ctx.distinct(n)
    chk = rs.CheckFermat(max_steps=bound)
    key = _check(ctx, chk, n)
    ent = gen.entries(key.test_info).get('CheckFermat')
    factored = _factored(key, p, q) and bool(ent and ent[0])
    inside = steps < bound
    ctx.count('fermat_inside' if inside else 'fermat_outside')
    if abs(steps - bound) <= 1:
      ctx.count('fermat_at_boundary')
    if inside and not factored:
      ctx.violation('fermat-missed-inside-bound',
                    'p,q of %d bits, step index %d < max_steps %d: not '
                    'factored' % (pbits, steps, bound),
                    {'n': n, 'p': p, 'steps': steps, 'bound': bound})
    if not inside and bool(ent and ent[0]):
      ctx.violation('fermat-factored-outside-bound',
                    'step index %d >= max_steps %d but CheckFermat reports a '
                    'factorisation' % (steps, bound),
                    {'n': n, 'p': p, 'steps': steps, 'bound': bound})
  try:
    ctx.sample({'family': 'fermat', 'n': n, 'steps': steps, 'max_steps': bound})
  except NameError:
    pass


def run_hilo(ctx, spec):
  from paranoid_crypto.lib import rsa_single_checks as rs
  rng = ctx.rng('hilo')
  chk_f, chk_h = rs.CheckFermat(), rs.CheckHighAndLowBitsEqual()
  for i in range(spec['n']):
    if ctx.spent(0.5):
      break
    nbits = rng.choice(spec['sizes'])
    tot = -(-nbits // 4) + 2 + rng.choice([0, 0, 1, 5, nbits // 16])
    r = rng.choice([3, 4, max(3, tot // 4), max(3, tot // 2),
                    max(3, 3 * tot // 4), tot - 1, tot])
    s = max(0, tot - r)
    if r + s > nbits // 2 - 2 or not ctx.want('h%d' % i):
      continue
    got = rsagen.hilo_equal(rng, nbits, r, s)
    if got is None:
      continue
    n, p, q = got
    ctx.count('evaluations')
    ctx.distinct(n)
    ctx.count('hilo:%s' % ('low-heavy' if r > s else 'high-heavy'))
    k1, k2 = _check(ctx, chk_f, n), _check(ctx, chk_h, n)
    if not (_factored(k1, p, q) or _factored(k2, p, q)):
      ctx.violation('equal-high-low-bits-missed',
                    '%d-bit modulus, primes agree on %d low and %d high bits '
                    '(r+s = %d >= %d): factored by neither check' %
                    (nbits, r, s, r + s, -(-nbits // 4) + 2),
                    {'n': n, 'p': p, 'r': r, 's': s})
  try:
    ctx.sample({'family': 'equal high and low bits', 'nbits': nbits, 'r': r,
                's': s, 'n': n})
  except NameError:
    pass


def run_upperdiff(ctx, spec):
  from paranoid_crypto.lib import rsa_single_checks as rs
  rng = ctx.rng('upperdiff')
  chk = rs.CheckSmallUpperDifferences()
  L = spec['L']
  for dexp in rsagen.UPPER_DIFF_EXPS:
    for i in range(spec['n']):
      if not ctx.want('%d/%d' % (dexp, i)):
        continue
      got = rsagen.upper_diff(rng, L, dexp)
      if got is None:
        continue
      n, p, q = got
      ctx.count('evaluations')
      ctx.count('upperdiff:2^(L-%d)' % dexp)
      ctx.distinct(n)
      key = _check(ctx, chk, n)
      if not _factored(key, p, q):
        ctx.violation('upper-difference-missed',
                      'L=%d, q = next_prime(p + 2^(L-%d)): not factored' %
                      (L, dexp), {'n': n, 'p': p, 'L': L, 'dexp': dexp})
  try:
    ctx.sample({'family': 'q = next_prime(p + D)', 'L': L, 'D': '2^(L-%d)' % dexp,
                'n': n})
  except NameError:
    pass


def run_unseeded(ctx, spec):
  from paranoid_crypto.lib import rsa_single_checks as rs
  from paranoid_crypto.lib.data import unseeded_rands
  rng = ctx.rng('unseeded')
  chk = rs.CheckUnseededRand()
  ps = spec['psize']
  lst = sorted(unseeded_rands.size_unseeded_map[ps])
  pick = [v for i, v in enumerate(lst) if i % 2 == spec['part']]
  if len(pick) > spec['per']:
    pick = rng.sample(pick, spec['per'])
  for v in pick:
    if ctx.spent(0.6):
      break
    for variant in (0, 1, 2):
      if not ctx.want('%x/%d' % (v & 0xffffffff, variant)):
        continue
      got = rsagen.unseeded_near(rng, v, ps, variant)
      if got is None:
        ctx.count('unseeded_not_constructible')
        continue
      n, p, q = got
      ctx.count('evaluations')
      ctx.count('unseeded:variant%d' % variant)
      ctx.distinct(n)
      key = _check(ctx, chk, n)
      if not _factored(key, p, q):
        bal = 'balanced' if abs(p.bit_length() - q.bit_length()) <= 1 else \
            'unbalanced'
        ctx.violation('unseeded-output-missed/%s' % bal,
                      'prime size %d, p = next_prime(listed value, variant %d)'
                      ', cofactor %d bits: not factored' % (
                          ps, variant, q.bit_length()),
                      {'n': n, 'p': p, 'listed': v, 'variant': variant})
  try:
    ctx.sample({'family': 'unseeded PRNG output', 'psize': ps,
                'listed_value': v, 'n': n})
  except NameError:
    pass


def run(ctx, spec):
  s = spec['shard']
  tail = s.rsplit('-', 1)[-1]
  if tail.isdigit() and int(tail) % 2 == 1:
    # odd shards: other instances of the parametrised checks exist (and were
    # used) before the instance under observation is built
    workloads.rsa_decoy_instances(ctx)
  for prefix, fn in (('fermat', run_fermat), ('hilo', run_hilo),
                     ('upperdiff', run_upperdiff), ('unseeded', run_unseeded)):
    if s.startswith(prefix):
      return fn(ctx, spec)


def finalize(agg, tier):
  c = agg['counters']
  need = ['decoy_instances_built', 'batch_position:0', 'batch_position:3',
          'batch_position:4', 'batch_position:5',
          'fermat_inside', 'fermat_outside', 'fermat_at_boundary',
          'hilo:low-heavy', 'hilo:high-heavy', 'unseeded:variant0',
          'unseeded:variant1', 'unseeded:variant2'] + [
              'upperdiff:2^(L-%d)' % d for d in rsagen.UPPER_DIFF_EXPS]
  return [], ['reach counter %s is zero' % k for k in need if not c.get(k)]
