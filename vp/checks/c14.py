"""C14 - linear complexity is the true shortest-LFSR length in every
implementation.  Compiler sanitizers (ASan+UBSan+libstdc++ assertions,
libFuzzer, valgrind memcheck) on the native code built from the working tree,
and a definitional oracle (Gaussian elimination, no Berlekamp-Massey) next to
all four implementations."""
import os
import subprocess

from vp import bootstrap
from vp.models import bits as mb

ID = 'C14'
RULE = ('one evaluation = one (sequence, length) submitted to one '
        'implementation (C++ portable, C++ clmul, Python wrapper per variant, '
        'LinearComplexityNative) and compared with the definitional linear '
        'complexity; distinct by (n, sequence); non-trivial = sequence not '
        'all-zero')
ASSUMPTIONS = ['oracle: smallest L whose linear system is solvable (Gaussian '
               'elimination in bm_driver.cc; cross-checked against an '
               'independent Python implementation on short sequences)',
               'sequences longer than 1200 bits are checked against '
               'constructed known complexities (0^(L-1)1 prefix extended by an '
               'LFSR of length L; last-bit flip => max(L, n-L)) and mutual '
               'agreement only',
               'sanitizers see only the paths the workload reaches']
EXHAUSTIVE_SUBSPACES = ['all sequences of every length 0..20 (quick 0..16), '
                        'both compile-time variants, under ASan+UBSan']


def plan(tier, seed):
  q = tier == 'quick'
  nmax = 16 if q else 20
  specs = []
  for v in (0, 1):
    specs.append({'shard': 'exh-v%d-small' % v, 'variant': v,
                  'ns': list(range(0, 14)), 'part': 0, 'parts': 1})
    for n in range(14, nmax + 1):
      parts = 1 if n <= 16 else 2 ** (n - 16)
      for part in range(parts):
        specs.append({'shard': 'exh-v%d-n%d-p%d' % (v, n, part), 'variant': v,
                      'ns': [n], 'part': part, 'parts': parts,
                      'weight': 2 + n - 14})
  specs.append({'shard': 'lfsrcount', 'nmax': 14 if q else 18, 'weight': 3})
  for i in range(8 if q else 16):
    specs.append({'shard': 'cases-%d' % i, 'part': i, 'parts': 8 if q else 16,
                  'reps': 1 if q else 4, 'weight': 4})
  for i in range(2 if q else 6):
    specs.append({'shard': 'long-%d' % i, 'n': 6 if q else 12,
                  'maxbits': 2 ** 15 if q else 2 ** 17, 'weight': 5})
  specs.append({'shard': 'fuzz', 'secs': 25 if q else 600, 'weight': 9,
                'timeout': 2000})
  specs.append({'shard': 'memcheck', 'n': 250 if q else 4000, 'weight': 6})
  return specs


def _run(cmd, inp=None, env=None, timeout=1500):
  e = dict(os.environ)
  e.update(env or {})
  return subprocess.run(cmd, input=inp, capture_output=True, text=True, env=e,
                        timeout=timeout)


def _report(ctx, p, where, data=None):
  """Turns a failing native run into a violation (sanitizer report etc.)."""
  from vp import native
  text = (p.stderr or '') + (p.stdout or '')
  kind = native.classify_report(text) or ('exit-%s' % p.returncode)
  first = next((l for l in text.splitlines() if 'runtime error' in l or
                'ERROR' in l or 'Assertion' in l or 'MISMATCH' in l), text[:200])
  ctx.violation('native-%s@%s' % (kind, where), '%s: %s' % (where, first[:300]),
                data)


def run_exh(ctx, spec):
  from vp import native
  drv = native.build('san')
  v = spec['variant']
  vname = ['portable', 'clmul'][v]
  for n in spec['ns']:
    if not ctx.want('n%d' % n):
      continue
    p = _run([drv, 'exh', str(v), str(n), str(spec['part']), str(spec['parts'])],
             env=native.SAN_ENV)
    line = next((l for l in p.stdout.splitlines() if l.startswith('EXH ')), None)
    if p.returncode != 0 or line is None:
      ctx.count('evaluations')
      _report(ctx, p, '%s/n=%d' % (vname, n), {'variant': vname, 'n': n})
      continue
    f = dict(kv.split('=') for kv in line.split()[1:])
    ctx.count('evaluations', int(f['evals']))
    ctx.count('sanitized_native_calls', int(f['evals']))
    ctx.count('exhaustive_lengths:' + vname)
    ctx.distinct(vname, n, spec['part'])
    if int(f['bad']):
      m = next(l for l in p.stdout.splitlines() if l.startswith('MISMATCH'))
      ctx.violation('native-wrong-linear-complexity@%s' % vname,
                    '%d of %s sequences of length %d wrong; first: %s' %
                    (int(f['bad']), f['evals'], n, m),
                    {'variant': vname, 'n': n})
  try:
    ctx.sample({'mode': 'exhaustive', 'variant': vname, 'lengths': spec['ns'],
                'part': '%d/%d' % (spec['part'], spec['parts'])})
  except NameError:
    pass


def run_lfsrcount(ctx, spec):
  from paranoid_crypto.lib.randomness_tests import berlekamp_massey as bm
  from vp import native
  drv = native.build('plain')
  for n in range(1, spec['nmax'] + 1):
    if not ctx.want('n%d' % n):
      continue
    if n <= 10:
      # independent Python oracle (definition) ...
      counts = [0] * (n + 1)
      for v in range(1 << n):
        counts[mb.linear_complexity([(v >> i) & 1 for i in range(n)])] += 1
      ctx.count('python_oracle_sequences', 1 << n)
    p = _run([drv, 'exh', '0', str(n), '0', '1'])
    line = next((l for l in p.stdout.splitlines() if l.startswith('EXH ')), '')
    dc = [int(x) for x in line.split('counts=')[-1].split(',') if x] if line \
        else None
    if n <= 10:
      # ... cross-checks the C++ oracle used everywhere else
      ctx.count('evaluations')
      if dc != counts:
        ctx.violation('oracle-cross-check', 'C++ and Python definitional '
                      'oracles disagree on the distribution for n=%d' % n,
                      {'n': n})
        continue
    else:
      counts = dc
    if counts is None:
      _report(ctx, p, 'plain/n=%d' % n)
      continue
    for m in range(-1, n + 2):
      ctx.count('evaluations')
      want = counts[m] if 0 <= m <= n else 0
      try:
        got = bm.LfsrCount(n, m)
      except Exception as e:  # pylint: disable=broad-except
        got = repr(e)
      if got != want:
        ctx.violation('lfsrcount-wrong', 'LfsrCount(%d,%d) = %r, true count %d'
                      % (n, m, got, want), {'n': n, 'm': m})
      if 0 <= m <= n:
        ctx.distinct('count', n, m)
        ctx.count('evaluations')
        try:
          x = bm.LfsrLogProbability(n, m)
          ok = isinstance(x, int) and n + x >= 0 and 2 ** (n + x) == want
        except Exception as e:  # pylint: disable=broad-except
          x, ok = repr(e), False
        if not ok:
          ctx.violation('lfsrlogprobability-wrong', 'LfsrLogProbability(%d,%d)'
                        ' = %r but count/2^n = %d/2^%d' % (n, m, x, want, n),
                        {'n': n, 'm': m})
      else:
        try:
          bm.LfsrLogProbability(n, m)
          ctx.violation('lfsrlogprobability-range', 'no ValueError for m=%d '
                        'n=%d' % (m, n), {'n': n, 'm': m})
        except ValueError:
          ctx.count('range_rejections')
  for n in (0, -1):
    if bm.LfsrCount(n, 0) != 0:
      ctx.violation('lfsrcount-wrong', 'LfsrCount(%d, 0) != 0' % n, {'n': n})
  try:
    ctx.sample({'n': n, 'true_counts_by_L': counts})
  except NameError:
    pass


def lfsr_sequence(rng, L, n):
  """Bits of a sequence of length n with linear complexity exactly L (n >= L
  >= 1): prefix 0^(L-1) 1 extended by a random LFSR of length L."""
  import gmpy2
  taps = rng.bits(L) | 0  # bit i-1 = c_i
  window = 1            # bit i-1 = s_{j-i}; start after prefix: s_{L-1} = 1
  mask = (1 << L) - 1
  seq = 1 << (L - 1)
  for j in range(L, n):
    b = gmpy2.popcount(taps & window) & 1
    if b:
      seq |= 1 << j
    window = ((window << 1) | b) & mask
  return seq


def gen_cases(rng, n, want_known=True):
  """(seq_int, n, known_lc or None, tag) for one length n."""
  out = []
  full = (1 << n) - 1
  out.append((rng.bits(n), n, None, 'random'))
  out.append((0, n, 0, 'zero'))
  if n:
    out.append((full, n, 1, 'ones'))
    pos = rng.below(n)
    out.append((1 << pos, n, pos + 1, 'single-one'))
    out.append((rng.bits(n) & rng.bits(n) & rng.bits(n) & rng.bits(n), n, None,
                'sparse'))
    per = rng.randint(1, 40)
    pat = rng.bits(per)
    v = 0
    for i in range(0, n, per):
      v |= pat << i
    out.append((v & full, n, None, 'periodic'))
    z = rng.below(n)
    out.append(((rng.bits(n) >> z) << z, n, None, 'leading-zeros'))
    out.append((rng.bits(n) >> z, n, None, 'trailing-zeros'))
  if n >= 2 and want_known:
    for L in {1, max(1, n // 2), max(1, (n - 1) // 2), max(1, n // 2 - 1),
              rng.randint(1, n),
              max(1, min(n, 32 * rng.randint(1, max(1, n // 32)))),
              max(1, min(n, 64 * rng.randint(1, max(1, n // 64)) + rng.choice(
                  [-1, 0, 1])))}:
      s = lfsr_sequence(rng, L, n)
      out.append((s, n, L, 'lfsr%d' % L))
      if n - 1 >= L:
        s2 = s ^ (1 << (n - 1))
        out.append((s2, n, n - L if 2 * L <= n - 1 else L, 'jump%d' % L))
  return out


def _driver_cases(drv, cases, omax, env=None):
  inp = ''.join('%d %s\n' % (n, (s.to_bytes((n + 7) // 8, 'little').hex()
                                  or '-') if extra is None else extra)
                for s, n, extra in cases)
  return _run([drv, 'cases', str(omax)], inp=inp, env=env)


def _compare_all(ctx, cases, rows, python_native_max):
  """cases: (seq, n, known, tag); rows: driver output lines."""
  from paranoid_crypto.lib.randomness_tests import berlekamp_massey as bm
  from paranoid_crypto.lib.randomness_tests.cc_util.pybind import (
      berlekamp_massey as pyb)
  saved = pyb.LfsrLength
  try:
    for (s, n, known, tag), row in zip(cases, rows):
      idx, a, b, o, va, vb = (int(x) for x in row.split())
      if s:
        ctx.distinct(n, s if n < 256 else hash(s))
      truth = o if o >= 0 else known
      vals = {'cpp-portable': a, 'cpp-clmul': b, 'cpp-portable-vector': va,
              'cpp-clmul-vector': vb}
      for v in ('portable', 'clmul'):
        pyb.LfsrLength = bootstrap.native_lfsr_length(v)
        try:
          vals['py-wrapper-' + v] = bm.LinearComplexity(s, n)
        except Exception as e:  # pylint: disable=broad-except
          vals['py-wrapper-' + v] = repr(e)
      if n <= python_native_max:
        try:
          vals['py-native'] = bm.LinearComplexityNative(s, n)
        except Exception as e:  # pylint: disable=broad-except
          vals['py-native'] = repr(e)
      if o >= 0 and known is not None:
        ctx.count('known_lc_validated_by_definition')
        if o != known:
          ctx.violation('harness-known-lc-construction', 'constructed LC %d != '
                        'definition %d (n=%d, %s)' % (known, o, n, tag), None)
      if truth is None:
        ctx.count('agreement_only_cases')
        truth = a
      for impl, got in vals.items():
        ctx.count('evaluations')
        ctx.count('impl:' + impl)
        if got != truth:
          ctx.violation('wrong-linear-complexity@%s' % impl,
                        '%s: n=%d (%s) -> %r, true linear complexity %r' %
                        (impl, n, tag, got, truth),
                        {'n': n, 'seq': s if n <= 4096 else None, 'tag': tag,
                         'impl': impl})
  finally:
    pyb.LfsrLength = saved


def run_cases(ctx, spec):
  from vp import native
  drv = native.build('san')
  rng = ctx.rng('cases')
  cases = []
  for n in range(spec['part'], 1101, spec['parts']):
    for _ in range(spec['reps']):
      cases += gen_cases(rng, n)
  # around every 64-bit word boundary up to 1100, every shard
  for w in range(1, 18):
    n = 64 * w + rng.choice([-1, 0, 1])
    cases += gen_cases(rng, n)[:3]
  cases = [c for c in cases if ctx.want('n%d' % c[1])]
  p = _driver_cases(drv, [(s, n, None) for s, n, _, _ in cases], 1200,
                    native.SAN_ENV)
  rows = p.stdout.splitlines()
  ctx.count('sanitized_native_calls', 4 * len(rows))
  if p.returncode != 0 or len(rows) != len(cases):
    bad = cases[len(rows)] if len(rows) < len(cases) else None
    _report(ctx, p, 'cases/n=%s' % (bad[1] if bad else '?'),
            {'n': bad[1], 'seq': bad[0], 'tag': bad[3]} if bad else None)
  _compare_all(ctx, cases, rows, 1100)
  try:
    ctx.sample({'n': cases[-1][1], 'tag': cases[-1][3],
                'seq_lsb_first': mb.lsb_string(cases[-1][0], cases[-1][1])[:80]})
  except NameError:
    pass
  # rejected arguments: n beyond the buffer / negative n -> -1 (pybind: -1)
  rej = [(0, n, extra) for n, extra in (
      (9, 'ff'), (1, '-'), (-1, 'ff'), (-5, '-'), (17, 'ffff'), (2 ** 31 - 1,
                                                                 'ff'))]
  p = _driver_cases(drv, rej, 0, native.SAN_ENV)
  for (s, n, extra), row in zip(rej, p.stdout.splitlines()):
    f = [int(x) for x in row.split()]
    ctx.count('evaluations', 4)
    if any(v != -1 for v in (f[1], f[2], f[4], f[5])):
      ctx.violation('native-out-of-range-accepted', 'n=%d with %d bytes -> %r'
                    % (n, len(extra) // 2 if extra != '-' else 0, f[1:]),
                    {'n': n})
    else:
      ctx.count('out_of_range_rejected')
  if p.returncode != 0:
    _report(ctx, p, 'cases/reject')


def run_long(ctx, spec):
  from vp import native
  drv = native.build('san')
  rng = ctx.rng('long')
  cases = []
  for i in range(spec['n']):
    n = rng.choice([1200 + rng.below(3000), 4096, 8191, 8192, 2 ** 14 + 1,
                    rng.randint(1200, spec['maxbits']), spec['maxbits']])
    cs = gen_cases(rng, n)
    known = [c for c in cs if c[2] is not None and c[3] not in ('zero', 'ones')]
    cases += rng.sample(known, min(4, len(known))) + cs[:1]
  cases = [c for c in cases if ctx.want('n%d' % c[1])]
  p = _driver_cases(drv, [(s, n, None) for s, n, _, _ in cases], 0,
                    native.SAN_ENV, )
  rows = p.stdout.splitlines()
  ctx.count('sanitized_native_calls', 4 * len(rows))
  if p.returncode != 0 or len(rows) != len(cases):
    _report(ctx, p, 'long')
  _compare_all(ctx, cases, rows, 2 ** 15)
  try:
    ctx.sample({'n': cases[-1][1], 'tag': cases[-1][3]})
  except NameError:
    pass


def run_fuzz(ctx, spec):
  from vp import native
  fz = native.build('fuzz')
  d = os.path.join(bootstrap.BUILD, 'fuzz-%d' % os.getpid())
  os.makedirs(os.path.join(d, 'corpus'), exist_ok=True)
  rng = ctx.rng('fuzz')
  for i in range(40):
    n = rng.choice([0, 1, 63, 64, 65, 127, 128, 129, 200, rng.randint(0, 700)])
    open(os.path.join(d, 'corpus', 'seed%d' % i), 'wb').write(
        n.to_bytes(2, 'little') + rng.bytes((n + 7) // 8 + rng.below(3)))
  p = _run([fz, '-max_total_time=%d' % spec['secs'], '-max_len=130',
            '-seed=%d' % (ctx.seed + 1), '-artifact_prefix=%s/' % d,
            '-print_final_stats=1', os.path.join(d, 'corpus')],
           env=native.SAN_ENV, timeout=spec['secs'] + 600)
  text = p.stderr
  execs = 0
  for l in text.splitlines():
    if 'stat::number_of_executed_units' in l:
      execs = int(l.split()[-1])
  ctx.count('evaluations', 2 * execs)
  ctx.count('fuzz_executions', execs)
  ctx.count('sanitized_native_calls', 2 * execs)
  ctx.distinct('fuzz', execs)
  if p.returncode != 0:
    arts = [f for f in os.listdir(d) if f.startswith(('crash-', 'leak-',
                                                      'timeout-'))]
    data = None
    if arts:
      data = {'artifact_hex': open(os.path.join(d, arts[0]), 'rb').read().hex()}
    _report(ctx, p, 'libfuzzer', data)
  try:
    ctx.sample({'mode': 'libFuzzer', 'executions': execs})
  except NameError:
    pass
  import shutil
  shutil.rmtree(d, ignore_errors=True)


def run_memcheck(ctx, spec):
  from vp import native
  drv = native.build('plain')
  rng = ctx.rng('memcheck')
  cases = []
  while len(cases) < spec['n']:
    n = rng.choice([0, 1, 7, 8, 63, 64, 65, 128, 191, 192, 193, 500,
                    rng.randint(0, 900)])
    cases += [(s, n, None) for s, n, _, _ in gen_cases(rng, n, False)[:3]]
  p = _run(['valgrind', '-q', '--error-exitcode=9', '--track-origins=no',
            drv, 'cases', '0'], inp=''.join(
                '%d %s\n' % (n, s.to_bytes((n + 7) // 8, 'little').hex() or '-')
                for s, n, _ in cases), timeout=1400)
  rows = p.stdout.splitlines()
  ctx.count('evaluations', 2 * len(rows))
  ctx.count('memcheck_native_calls', 4 * len(rows))
  ctx.distinct('memcheck', len(rows))
  if p.returncode != 0 or len(rows) != len(cases):
    _report(ctx, p, 'memcheck')
  try:
    ctx.sample({'mode': 'valgrind memcheck', 'cases': len(rows)})
  except NameError:
    pass


def run(ctx, spec):
  from paranoid_crypto.lib.randomness_tests import berlekamp_massey as bm
  from vp import contracts
  pm = contracts.PurityMonitor(ctx, keep=150, max_repr=4000)
  for f in ('LinearComplexity', 'LinearComplexityNative', 'LfsrCount',
            'LfsrLogProbability'):
    pm.wrap(bm, f)
  try:
    _dispatch(ctx, spec)
    pm.recheck()
  finally:
    pm.restore()


def _dispatch(ctx, spec):
  s = spec['shard']
  for prefix, fn in (('exh', run_exh), ('lfsrcount', run_lfsrcount),
                     ('cases', run_cases), ('long', run_long),
                     ('fuzz', run_fuzz), ('memcheck', run_memcheck)):
    if s.startswith(prefix):
      return fn(ctx, spec)


def finalize(agg, tier):
  c = agg['counters']
  need = ['sanitized_native_calls', 'exhaustive_lengths:portable',
          'exhaustive_lengths:clmul', 'impl:py-native', 'impl:cpp-clmul',
          'impl:py-wrapper-clmul', 'fuzz_executions', 'memcheck_native_calls',
          'known_lc_validated_by_definition', 'python_oracle_sequences',
          'out_of_range_rejected']
  inc = ['reach counter %s is zero' % k for k in need if not c.get(k)]
  nl = sum(len(sp['ns']) for sp in plan(tier, 0)
           if sp['shard'].startswith('exh-v0'))
  for v in ('portable', 'clmul'):
    if 0 < c.get('exhaustive_lengths:' + v, 0) < nl and not agg['violations']:
      inc.append('only %d of %d lengths enumerated for %s' %
                 (c['exhaustive_lengths:' + v], nl, v))
  return [], inc
