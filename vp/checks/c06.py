"""C06 - checks with a closed-form criterion flag exactly the artifacts that
meet it.  Independent evaluation of each criterion next to the check class."""
import hashlib

from vp import gen
from vp.models import ec as mec

ID = 'C06'
RULE = ('one evaluation = one artifact submitted to one closed-form check and '
        'compared, in both directions, with an independent evaluation of the '
        'criterion; distinct by (check, artifact); non-trivial = artifact lies '
        'on or next to the decision boundary or is a constructed positive')
ASSUMPTIONS = ['keypair (CVE-2021-41117): the workload generator is the '
               'repository\'s own emulation of the npm package; oracle is '
               'p*q == n and flagged+factored, so a common error in emulation '
               'and table would go unseen',
               'no registered curve has cofactor > 1: the subgroup clause is '
               'decided on a synthetic EcCurve (h = 4) swapped into '
               'CURVE_FACTORY for the duration of the case',
               'x is a square mod p includes x = 0 (as in the code\'s table)']
EXHAUSTIVE_SUBSPACES = ['all 256 x 3 seeds covered by the shipped keypair '
                        'table', 'all 20 curve identifiers + 2 out-of-enum '
                        'values']

ROCA_PRIMES = [3, 5, 7, 11, 13, 17, 19, 23, 29, 31, 37, 41, 43, 47, 53, 59, 61,
               67, 71, 73, 79, 83, 89, 97, 101, 103, 107, 109, 113, 127, 131,
               137, 139, 149, 151, 157, 163, 167, 173]



_SHIPPED = {}


def _shipped_denylist():
  """The shipped OpenSSL deny-list through the public storage interface."""
  if 'deny' not in _SHIPPED:
    from paranoid_crypto.lib.data import default_storage
    _SHIPPED['deny'] = default_storage.DefaultStorage().GetOpensslDenylist()
  return _SHIPPED['deny']


def _shipped_keypair_table():
  if 'keypair' not in _SHIPPED:
    from paranoid_crypto.lib.data import default_storage
    _SHIPPED['keypair'] = dict(
        default_storage.DefaultStorage().GetKeypairData().table)
  return _SHIPPED['keypair']

def _primes_after_3(count):
  out, c = [], 5
  while len(out) < count:
    if all(c % d for d in range(2, int(c ** 0.5) + 1)):
      out.append(c)
    c += 2
  return out


VARIANT_PRIMES = _primes_after_3(48)


def plan(tier, seed):
  q = tier == 'quick'
  specs = [{'shard': 'keypair-%d' % i, 'part': i, 'parts': 16, 'weight': 9}
           for i in range(16)]
  specs += [{'shard': 'sizeexp', 'n': 300 if q else 3000},
            {'shard': 'roca-0', 'n': 800 if q else 6000},
            {'shard': 'roca-1', 'n': 800 if q else 6000},
            {'shard': 'denylist', 'n': 150 if q else 1500},
            {'shard': 'keypair-custom', 'n': 6 if q else 40, 'weight': 4},
            {'shard': 'ec-0', 'n': 72 if q else 600},
            {'shard': 'ec-1', 'n': 72 if q else 600}]
  return specs


def _entry(key, name):
  e = gen.entries(key.test_info).get(name)
  return None if e is None else e[0]


def _expect(ctx, check, key, want, what, data, nontrivial=True):
  ctx.count('evaluations')
  ctx.count('verdict:%s:%s' % (check, 'pos' if want else 'neg'))
  got = _entry(key, check)
  if got is None:
    ctx.violation('%s-no-entry' % check, '%s: no result entry (%s)' %
                  (check, what), data)
  elif got != want:
    ctx.violation('%s-%s' % (check, 'false-negative' if want else
                             'false-positive'),
                  '%s: flagged=%s, criterion=%s (%s)' % (check, got, want, what),
                  data)
  elif bool(key.test_info.weak) != any(
      e[0] for e in gen.entries(key.test_info).values()):
    ctx.violation('%s-weak-flag' % check, 'weak flag inconsistent', data)


def run_sizeexp(ctx, spec):
  from paranoid_crypto.lib import rsa_single_checks as rs
  rng = ctx.rng('sizeexp')
  cs, ce = rs.CheckSizes(), rs.CheckExponents()
  ns = [2 ** 2047, 2 ** 2047 - 1, 2 ** 2047 + 1, 2 ** 2048 - 1, 2 ** 2048,
        2 ** 2046 + 12345, 2 ** 2046, 2 ** 63, 2 ** 64 - 1, 2 ** 1023 + 1,
        2 ** 4095 + 1, 2 ** 3071]
  es = [0, 1, 3, 17, 65536, 65537, 65538, 2 ** 32 + 1, 2 ** 16, 2 ** 17 + 1,
        65537 + 2 ** 64, 257]
  batch_items = []
  for i in range(spec['n']):
    n = ns[i] if i < len(ns) else rng.choice(
        [rng.odd(rng.randint(64, 4100)), rng.odd(rng.choice(
            [2046, 2047, 2048, 2049])), rng.choice(ns) + 2 * rng.below(50)])
    e = es[i % len(es)] if i % 3 else rng.choice(
        [65537, 65537, rng.bits(rng.randint(1, 70))])
    pad = rng.choice([0, 0, 1, 3])
    if not ctx.want('k%d' % i):
      continue
    key = gen.rsa_key(n, e, pad=pad)
    if len(batch_items) < 40:
      batch_items.append((n, e, pad))
    cs.Check([key])
    ce.Check([key])
    ctx.distinct('sizeexp', n, e, pad)
    _expect(ctx, 'CheckSizes', key, n.bit_length() < 2048,
            'bit length %d, %d leading zero bytes' % (n.bit_length(), pad),
            {'n': n, 'pad': pad})
    _expect(ctx, 'CheckExponents', key, e != 65537,
            'e = %d, %d leading zero bytes' % (e, pad), {'e': e, 'pad': pad})
  # per-key criteria: the same keys in one call, positives first / last
  for tag, rev in (('positives-first', False), ('positives-last', True)):
    if not batch_items or not ctx.want('batch/' + tag):
      continue
    items = sorted(batch_items, key=lambda t: (t[0].bit_length() >= 2048,
                                               t[1] == 65537), reverse=rev)
    keys = [gen.rsa_key(n_, e_, pad=p_) for n_, e_, p_ in items]
    cs.Check(keys)
    ce.Check(keys)
    ctx.count('criteria_in_one_batch', len(keys))
    for key, (n_, e_, p_) in zip(keys, items):
      _expect(ctx, 'CheckSizes', key, n_.bit_length() < 2048,
              'bit length %d in a batch (%s)' % (n_.bit_length(), tag),
              {'n': n_})
      _expect(ctx, 'CheckExponents', key, e_ != 65537,
              'e = %d in a batch (%s)' % (e_, tag), {'e': e_})
  try:
    ctx.sample({'check': 'CheckSizes/CheckExponents', 'n_bits': n.bit_length(),
                'e': e, 'leading_zero_bytes': pad})
  except NameError:
    pass


def _crt(residues):
  x, m = 0, 1
  for p, r in residues:
    t = (r - x) * pow(m, -1, p) % p
    x += m * t
    m *= p
  return x, m


def run_roca(ctx, spec):
  from paranoid_crypto.lib import rsa_single_checks as rs
  rng = ctx.rng('roca')
  croca, cvar = rs.CheckROCA(), rs.CheckROCAVariant()
  sub = {p: {pow(65537, k, p) for k in range(p)} for p in ROCA_PRIMES}
  sq = {p: {i * i % p for i in range(p)} for p in VARIANT_PRIMES}
  M = 1
  for p in ROCA_PRIMES:
    M *= p

  def model_roca(n):
    return all(n % p in sub[p] for p in ROCA_PRIMES)

  def model_var(n):
    return all(n % p in sq[p] for p in VARIANT_PRIMES) and not model_roca(n)

  for i in range(spec['n']):
    if not ctx.want('r%d' % i):
      continue
    kind = i % 8
    bits = rng.choice([512, 1024, 2048, 3072])
    allp = sorted(set(ROCA_PRIMES) | set(VARIANT_PRIMES))
    if kind == 0:      # genuinely ROCA-structured semiprime
      def rp():
        while True:
          k = rng.bits(bits // 2 - M.bit_length())
          c = k * M + pow(65537, rng.bits(60), M)
          if c.bit_length() > 64 and __import__('gmpy2').is_prime(c):
            return int(c)
      n = rp() * rp()
      what = 'ROCA-structured semiprime'
    elif kind in (1, 2):  # all 39 residues in <65537>, or exactly one outside
      res = {p: rng.choice(sorted(sub[p])) for p in ROCA_PRIMES}
      what = 'all 39 residues are powers of 65537'
      if kind == 2:
        # every one of the 39 primes takes its turn as the failing one
        p = ROCA_PRIMES[(i // 8) % len(ROCA_PRIMES)]
        out = [r for r in range(p) if r not in sub[p]]
        res[p] = rng.choice(out)
        what = '38 of 39 residues are powers of 65537 (fails at %d with %d)' % (
            p, res[p])
      for p in allp:
        res.setdefault(p, rng.below(p))
      x, m = _crt(sorted(res.items()))
      n = x + m * rng.bits(bits - m.bit_length() if bits > m.bit_length() + 8
                           else 64)
    elif kind in (3, 4):  # QR modulo all 48 (and typically not ROCA) / one NR
      res = {p: rng.choice(sorted(sq[p])) for p in VARIANT_PRIMES}
      what = 'square modulo all 48 primes'
      if kind == 4:
        p = VARIANT_PRIMES[(i // 8) % len(VARIANT_PRIMES)]
        res[p] = rng.choice([r for r in range(p) if r not in sq[p]])
        what = 'square modulo 47 of 48 primes (non-residue at %d)' % p
      res[3] = rng.choice([0, 1, 2]) if rng.chance(1, 2) else 2
      x, m = _crt(sorted(res.items()))
      n = x + m * rng.bits(max(64, bits - m.bit_length()))
    elif kind == 5:       # both at once: ROCA and square everywhere
      res = {}
      ok = True
      for p in allp:
        c = (sub[p] if p in sub else set(range(p))) & (sq[p] if p in sq else
                                                       set(range(p)))
        if not c:
          ok = False
          break
        res[p] = rng.choice(sorted(c))
      if not ok:
        continue
      x, m = _crt(sorted(res.items()))
      n = x + m * rng.bits(max(64, bits - m.bit_length()))
      what = 'ROCA residues and square everywhere (variant must defer)'
    else:
      n = rng.odd(bits) if kind == 6 else gen.semiprime(rng, 512)[0] * \
          gen.semiprime(rng, 512)[1]
      what = 'random'
    if n.bit_length() < 64:
      continue
    # the criteria depend on the modulus only: any exponent, any encoding
    e = rng.choice([65537, 65537, 3, 17, 65539, 2 ** 32 + 1, 1, 0])
    key = gen.rsa_key(n, e, pad=rng.choice([0, 0, 1, 4]))
    ctx.count('roca_keys_with_other_exponents', int(e != 65537))
    croca.Check([key])
    cvar.Check([key])
    ctx.distinct('roca', n)
    _expect(ctx, 'CheckROCA', key, model_roca(n), what, {'n': n})
    _expect(ctx, 'CheckROCAVariant', key, model_var(n), what, {'n': n})
  try:
    ctx.sample({'check': 'CheckROCA/CheckROCAVariant', 'case': what, 'n': n})
  except NameError:
    pass


def _fingerprint(n):
  return hashlib.sha1(('Modulus=%s\n' % format(n, 'X')).encode()
                      ).hexdigest()[-20:]


def _storage_class():
  from paranoid_crypto.lib.data import data_pb2
  from paranoid_crypto.lib.data import storage

  class CustomStorage(storage.Storage):

    def __init__(self, deny=(), table=None, unseeded=None):
      self.deny, self.table_, self.unseeded = set(deny), table or {}, \
          unseeded or {}

    def GetUnseededRands(self, size):
      return self.unseeded.get(size, frozenset())

    def GetKeypairData(self):
      d = data_pb2.KeypairData()
      for k, v in self.table_.items():
        d.table[k] = v
      return d

    def GetOpensslDenylist(self):
      return self.deny

  return CustomStorage


def run_denylist(ctx, spec):
  from paranoid_crypto.lib import rsa_single_checks as rs
  rng = ctx.rng('deny')
  Custom = _storage_class()
  shipped = rs.CheckOpensslDenylist()
  for i in range(spec['n']):
    if not ctx.want('d%d' % i):
      continue
    bits = rng.choice([1024, 2048, 4096, 2047, 1023, 512, 2049])
    n = rng.odd(bits)
    if i % 7 == 0:
      n = (1 << (bits - 1)) + rng.below(1000) * 2 + 1   # hex with zeros
    fp = _fingerprint(n)
    kt = 'RSA-%d' % n.bit_length()
    kind = i % 6
    deny = {
        0: {'%s:%s' % (kt, fp)},
        1: {'%s:%s' % (kt, _fingerprint(n + 2)), '%s:%s' % (kt, _fingerprint(
            n - 2))},
        2: {'RSA-%d:%s' % (n.bit_length() + 1, fp), 'RSA-1024:' + fp} - {
            '%s:%s' % (kt, fp)},
        3: {'%s:%s' % (kt, fp.upper())} - {'%s:%s' % (kt, fp)},
        4: set(),
        5: {'%s:%s' % (kt, fp), 'RSA-2048:' + '0' * 20, 'garbage'},
    }[kind]
    want = ('%s:%s' % (kt, fp)) in deny
    key = gen.rsa_key(n, rng.choice([65537, 3, 2 ** 32 + 1]),
                      pad=rng.choice([0, 2]))
    rs.CheckOpensslDenylist(Custom(deny=deny)).Check([key])
    ctx.distinct('deny', n, kind)
    _expect(ctx, 'CheckOpensslDenylist', key, want,
            'custom deny-list kind %d' % kind, {'n': n, 'deny': sorted(deny)})
    key2 = gen.rsa_key(n)
    shipped.Check([key2])
    _expect(ctx, 'CheckOpensslDenylist', key2,
            ('%s:%s' % (kt, fp)) in _shipped_denylist(),
            'shipped deny-list', {'n': n})
  try:
    ctx.sample({'check': 'CheckOpensslDenylist', 'n': n, 'fingerprint': fp,
                'denylist': sorted(deny)})
  except NameError:
    pass


def _factors(key):
  fac = gen.attached(key.test_info).get('N_FACTORS')
  return set(int(x, 16) for x in eval(fac)) if fac else set()  # pylint: disable=eval-used


def run_keypair(ctx, spec):
  from paranoid_crypto.lib import keypair_generator
  from paranoid_crypto.lib import rsa_single_checks as rs
  chk = rs.CheckKeypairDenylist()
  for b0 in range(spec['part'], 256, spec['parts']):
    for bits in (2048, 3072, 4096):
      if not ctx.want('%d/%d' % (b0, bits)):
        continue
      seed = bytes([b0] + [0] * 31)
      p, q = keypair_generator.Generator(seed).generate_key(bits)
      n = p * q
      key = gen.rsa_key(n, [65537, 3, 65539][b0 % 3], pad=b0 % 2)
      chk.Check([key])
      ctx.distinct('keypair', b0, bits)
      ctx.count('covered_seeds_regenerated')
      _expect(ctx, 'CheckKeypairDenylist', key, True,
              'seed %02x00..00, %d bits' % (b0, bits), {'seed0': b0,
                                                        'bits': bits})
      if _entry(key, 'CheckKeypairDenylist') and _factors(key) != {p, q}:
        ctx.violation('CheckKeypairDenylist-factors', 'recorded %r' %
                      sorted(_factors(key)), {'seed0': b0, 'bits': bits})
      if bits == 2048:
        # the same check object, right after the genuine key: a different
        # modulus with the same 64 leading bits (also in one batch with it)
        cut = [8, 64, 1000, 1900][b0 % 4]
        other = (n >> cut << cut) | (((n & ((1 << cut) - 1)) + 2 * b0 + 2) %
                                     (1 << cut)) | 1
        if other != n:
          key2, key3, key4 = gen.rsa_key(other), gen.rsa_key(n), gen.rsa_key(
              other)
          chk.Check([key2])
          chk.Check([key3, key4])
          ctx.count('keypair_colliders_after_genuine')
          for k in (key2, key4):
            _expect(ctx, 'CheckKeypairDenylist', k, False,
                    'modulus sharing the 64 msb with the covered key checked '
                    'just before by the same object', {'n': other})
            if _factors(k):
              ctx.violation('CheckKeypairDenylist-fabricated-factors',
                            'factors for a modulus that merely shares 64 msb '
                            'with the key checked before', {'n': other})
  try:
    ctx.sample({'check': 'CheckKeypairDenylist', 'seed_first_byte': b0,
                'bits': bits, 'n': n})
  except NameError:
    pass


def run_keypair_custom(ctx, spec):
  from paranoid_crypto.lib import keypair_generator
  from paranoid_crypto.lib import rsa_single_checks as rs
  rng = ctx.rng('kpc')
  Custom = _storage_class()
  for i in range(spec['n']):
    if not ctx.want('c%d' % i):
      continue
    b0 = rng.below(256)
    extra = []
    for idx in rng.sample(range(1, 32), rng.choice([1, 2])):
      extra += [idx, rng.randint(1, 9)]
    meta = bytes([b0] + extra)
    seed = bytearray([b0] + [0] * 31)
    for j in range(0, len(extra), 2):
      seed[extra[j]] = extra[j + 1]
    bits = rng.choice([2048, 2048, 3072])
    p, q = keypair_generator.Generator(bytes(seed)).generate_key(bits)
    n = p * q
    msb = n >> (n.bit_length() - 64)
    # (a) a table that covers this seed: must flag and factor
    key = gen.rsa_key(n)
    rs.CheckKeypairDenylist(Custom(table={msb: meta})).Check([key])
    ctx.distinct('kpc', n)
    _expect(ctx, 'CheckKeypairDenylist', key, True,
            'custom table covering seed %s' % bytes(seed).hex(),
            {'seed': bytes(seed), 'bits': bits})
    if _factors(key) != {p, q} and _entry(key, 'CheckKeypairDenylist'):
      ctx.violation('CheckKeypairDenylist-factors', 'custom table', None)
    # (b) same 64 msb, metadata of another seed: must not flag
    key = gen.rsa_key(n)
    rs.CheckKeypairDenylist(Custom(table={msb: bytes([(b0 + 1) % 256])})
                            ).Check([key])
    _expect(ctx, 'CheckKeypairDenylist', key, False,
            'table entry with foreign metadata for the same 64 msb',
            {'seed': bytes(seed)})
    # (c) a healthy modulus colliding with a covered key on the 64 msb
    other = (n >> 200 << 200) | rng.bits(200) | 1
    key = gen.rsa_key(other)
    rs.CheckKeypairDenylist(Custom(table={msb: meta})).Check([key])
    _expect(ctx, 'CheckKeypairDenylist', key, False,
            'modulus sharing only the 64 msb with a covered key', {'n': other})
    if _factors(key):
      ctx.violation('CheckKeypairDenylist-fabricated-factors', 'factors for '
                    'a modulus that merely shares 64 msb', {'n': other})
    # (d) not in the (shipped) table at all
    key = gen.rsa_key(n)
    shipped = rs.CheckKeypairDenylist()
    shipped.Check([key])
    _expect(ctx, 'CheckKeypairDenylist', key, msb in _shipped_keypair_table()
            and len(meta) == 1, 'shipped table, seed with %d non-zero bytes' % (
            1 + len(extra) // 2), {'seed': bytes(seed)})
  try:
    ctx.sample({'check': 'CheckKeypairDenylist/custom storage',
                'seed': bytes(seed).hex(), 'metadata': meta.hex()})
  except NameError:
    pass


def run_ec(ctx, spec):
  from paranoid_crypto import paranoid_pb2
  from paranoid_crypto.lib import ec_single_checks as es
  from paranoid_crypto.lib import ec_util
  rng = ctx.rng('ec')
  cvalid, cweak = es.CheckValidECKey(), es.CheckWeakCurve()
  ids = sorted(paranoid_pb2.CurveType.values()) + [20, 99]
  collected = []
  for cid in ids:
    name = paranoid_pb2.CurveType.Name(cid) if cid < 20 else 'OUT_OF_ENUM'
    known = name in gen.NAMED
    for i in range(spec['n'] if known else 3):
      if not ctx.want('%s/%d' % (name, i)):
        continue
      if known:
        mc = gen.model_curve(name)
        p = mc.p
        d = rng.below(mc.n - 1) + 1
        P = mc.mulg(d)
        kind = i % 12
        x, y = P
        if kind == 1:
          y = (y + 1 + rng.below(p - 2)) % p        # off curve
        elif kind == 2:
          x, y = x + p, y                            # out of range, on curve
        elif kind == 3:
          x, y = x, y + p
        elif kind == 4:
          x, y = 0, 0
        elif kind == 5:
          x, y = p, rng.below(p)
        elif kind == 6:
          x, y = rng.bits(600), rng.bits(600)
        elif kind == 7:
          y = -y % p                                 # negated: still valid
        elif kind == 8:
          x, y = p - 1, rng.below(p)
        elif kind == 9:
          x = rng.below(p)                           # random x with P's y
        elif kind == 10:
          x, y = x, 0
        elif kind == 11 and p % 4 == 3:
          # the valid point with x == 0 (if b is a square) and its encoding
          # with x == p: the first is valid, the second out of range
          yy = pow(mc.b, (p + 1) // 4, p)
          if yy * yy % p == mc.b % p:
            x, y = (0, yy) if i % 24 < 12 else (p, yy)
            ctx.count('x_equals_p_boundary')
        valid = 0 <= x < p and 0 <= y < p and mc.on_curve((x, y))
        pad = rng.choice([0, 0, 1, 4])
        key = gen.ec_key(cid, x, y, pad=pad)
        what = '%s coordinate mutation %d' % (name, kind)
      else:
        valid = False
        key = gen.ec_key(cid, rng.bits(200), rng.bits(200))
        what = 'curve id %d (%s)' % (cid, name)
      if i < 4:
        collected.append((type(key)().FromString(key.SerializeToString()),
                          valid, known and gen.model_curve(
                              name).n.bit_length() < 224 if known else None,
                          what, cid))
      cvalid.Check([key])
      cweak.Check([key])
      ctx.distinct('ec', cid, i)
      _expect(ctx, 'CheckValidECKey', key, not valid, what,
              {'curve': cid, 'x': int.from_bytes(key.ec_info.x, 'big'),
               'y': int.from_bytes(key.ec_info.y, 'big')})
      ctx.count('evaluations')
      went = _entry(key, 'CheckWeakCurve')
      if known:
        wantw = gen.model_curve(name).n.bit_length() < 224
        ctx.count('verdict:CheckWeakCurve:%s' % ('pos' if wantw else 'neg'))
        if went is None or went != wantw:
          ctx.violation('CheckWeakCurve-wrong', '%s: flagged=%r, order has %d '
                        'bits' % (name, went,
                                  gen.model_curve(name).n.bit_length()),
                        {'curve': cid})
      elif went:
        ctx.violation('CheckWeakCurve-unknown-curve', 'entry %r for %s' %
                      (went, name), {'curve': cid})
  # the criteria are per key: the same keys once more in one call, keys of
  # weak curves / invalid keys first, then in the opposite order
  for tag, rev in (('positives-first', False), ('positives-last', True)):
    if not collected or not ctx.want('batch/' + tag):
      continue
    items = sorted(collected, key=lambda t: (not bool(t[2]), t[1]),
                   reverse=rev)
    batch = [type(k)().FromString(k.SerializeToString())
             for k, _, _, _, _ in items]
    cvalid.Check(batch)
    cweak.Check(batch)
    ctx.count('criteria_in_one_batch', len(batch))
    for key, (_, valid, wantw, what, cid) in zip(batch, items):
      ctx.count('evaluations')
      _expect(ctx, 'CheckValidECKey', key, not valid, what + ' (batch, %s)' %
              tag, {'curve': cid})
      went = _entry(key, 'CheckWeakCurve')
      if wantw is not None and went != wantw:
        ctx.violation('CheckWeakCurve-wrong/in-batch', 'curve id %d in a batch '
                      '(%s): flagged=%r, criterion=%r' % (cid, tag, went,
                                                          wantw), {'curve': cid})
      elif wantw is None and went:
        ctx.violation('CheckWeakCurve-unknown-curve', 'entry %r for curve id '
                      '%d in a batch' % (went, cid), {'curve': cid})
  # subgroup clause on a synthetic cofactor-4 curve swapped into the registry
  if ctx.want('subgroup'):
    slot = paranoid_pb2.CurveType.CURVE_SECT163K1
    saved = ec_util.CURVE_FACTORY[slot]
    try:
      for mc in mec.cofactor_curves(rng, 3):
        h = mc.h
        ec_util.CURVE_FACTORY[slot] = ec_util.EcCurve(
            'synthetic', mc.a, mc.b, mc.p, mc.g[0], mc.g[1], mc.n, h)
        sub = set()
        Q = mc.g
        for _ in range(mc.n):
          sub.add(Q)
          Q = mc.add(Q, mc.g)
        for P in mc.points():
          key = gen.ec_key(slot, P[0], P[1])
          cvalid.Check([key])
          ctx.distinct('subgroup', mc.name, P)
          ctx.count('subgroup_points')
          _expect(ctx, 'CheckValidECKey', key, P not in sub,
                  'cofactor-%d curve, point %s the subgroup' % (
                      h, 'in' if P in sub else 'outside'),
                  {'curve': mc.name, 'P': P})
    finally:
      ec_util.CURVE_FACTORY[slot] = saved
  try:
    ctx.sample({'check': 'CheckValidECKey/CheckWeakCurve', 'case': what})
  except NameError:
    pass


def run(ctx, spec):
  s = spec['shard']
  for prefix, fn in (('keypair-custom', run_keypair_custom),
                     ('keypair', run_keypair), ('sizeexp', run_sizeexp),
                     ('roca', run_roca), ('denylist', run_denylist),
                     ('ec', run_ec)):
    if s.startswith(prefix):
      return fn(ctx, spec)


def finalize(agg, tier):
  c = agg['counters']
  need = []
  for chk in ('CheckSizes', 'CheckExponents', 'CheckROCA', 'CheckROCAVariant',
              'CheckOpensslDenylist', 'CheckKeypairDenylist',
              'CheckValidECKey', 'CheckWeakCurve'):
    need += ['verdict:%s:pos' % chk, 'verdict:%s:neg' % chk]
  need += ['subgroup_points', 'x_equals_p_boundary', 'criteria_in_one_batch']
  inc = ['reach counter %s is zero' % k for k in need if not c.get(k)]
  if c.get('covered_seeds_regenerated', 0) != 768 and not agg['violations']:
    inc.append('only %d of 768 covered seeds regenerated' %
               c.get('covered_seeds_regenerated', 0))
  return [], inc
