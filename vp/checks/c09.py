"""C09 - the nonce relation extracted from any ECDSA signature is exact.
Model signer with known nonce, OpenSSL as an independent signer (incl.
RFC 6979 deterministic nonces), and conversion round trips."""
import hashlib
import hmac

from vp import gen
from vp import sigs
from vp.models import ec as mec

ID = 'C09'
RULE = ('one evaluation = one signature whose nonce is known (model signer, '
        'RFC 6979) or verifiable (OpenSSL: x(k\'G) mod n == r) pushed through '
        'ECDSAValues + HiddenNumberParams, or one conversion round trip; '
        'distinct by (curve, d, k, hash); all are non-trivial')
ASSUMPTIONS = ['OpenSSL (cryptography) is trusted as independent signer and '
               'for k*G; RFC 6979 section 3.2 is transcribed in this file',
               'bits2int-mod-n transcribed from RFC 6979 2.3.2 / 2.4']
EXHAUSTIVE_SUBSPACES = ['hash byte lengths 0..64 on every curve',
                        'Int2Bytes/Bytes2Int for all v < 2^16']

HASHES = {20: 'sha1', 28: 'sha224', 32: 'sha256', 48: 'sha384', 64: 'sha512'}


def plan(tier, seed):
  q = tier == 'quick'
  specs = [{'shard': 'model-' + c, 'curve': c, 'n': 1500 if q else 8000}
           for c in gen.NAMED]
  specs += [{'shard': 'ossl-' + c, 'curve': c, 'n': 600 if q else 4000}
            for c in gen.NAMED]
  specs += [{'shard': 'cross-%d' % i, 'n': 60 if q else 600} for i in range(2)]
  specs += [{'shard': 'incheck-%d' % i, 'n': 6 if q else 40, 'weight': 3}
            for i in range(3)]
  specs.append({'shard': 'conv', 'n': 2000 if q else 40000})
  return specs


def _relation(ctx, curve, sig, d, k, what):
  """k == a + b*d (mod n) with (a, b) derived by the library."""
  from paranoid_crypto.lib import ec_util
  rc = gen.repo_curve(curve)
  n = int(rc.n)
  ctx.count('evaluations')
  try:
    r, s, z = ec_util.ECDSAValues(sig.ecdsa_sig_info, rc)
    a, b = rc.HiddenNumberParams(r, s, z)
  except Exception as e:  # pylint: disable=broad-except
    ctx.violation('relation-raised-%s' % type(e).__name__, '%s: %r' % (what, e),
                  {'curve': curve, 'd': d, 'k': k})
    return None
  zz = gen.bits2int_mod(sig.ecdsa_sig_info.message_hash, n)
  if int(z) != zz:
    ctx.violation('hash-truncation-differs-from-rfc6979',
                  '%s: hash of %d bytes on %s: z = %x, RFC 6979 bits2int mod n '
                  '= %x' % (what, len(sig.ecdsa_sig_info.message_hash), curve,
                            int(z), zz),
                  {'curve': curve, 'hash': sig.ecdsa_sig_info.message_hash})
  kk = (int(a) + int(b) * d) % n
  if k is not None and kk != k % n:
    ctx.violation('nonce-relation-wrong', '%s on %s: a + b*d = %x but the '
                  'nonce is %x' % (what, curve, kk, k),
                  {'curve': curve, 'd': d, 'k': k,
                   'hash': sig.ecdsa_sig_info.message_hash})
  if not 0 <= int(a) < n or not 0 <= int(b) < n:
    ctx.violation('relation-not-reduced', 'a or b outside [0, n)', None)
  return kk


def _digest(ctx, rng, hl):
  """Digest classes: random, all-zero, all-one, and - for the truncation rule
  of over-long digests - leading zero bytes/bits followed by random bits."""
  c = rng.choice(['random', 'random', 'zero', 'ones', 'leading-zeros',
                  'leading-zeros', 'small'])
  if hl == 0:
    return b''
  if c == 'zero':
    return b'\x00' * hl
  if c == 'ones':
    return b'\xff' * hl
  if c == 'leading-zeros':
    z = rng.randint(1, hl * 8 - 1)          # number of leading zero bits
    v = rng.bits(hl * 8 - z) | (1 << (hl * 8 - z - 1))
    ctx.count('digest_with_leading_zero_bits')
    return v.to_bytes(hl, 'big')
  if c == 'small':
    return rng.choice([1, 2, 255, 256, 65537]).to_bytes(max(hl, 3), 'big')[-hl:]
  return rng.bytes(hl)


def run_model(ctx, spec):
  rng = ctx.rng('model')
  curve = spec['curve']
  mc = gen.model_curve(curve)
  n = mc.n
  edge = [1, 2, n - 1, n - 2]
  pubs = {}
  cases = [(d, k, hl) for d in edge for k in edge for hl in (0, 20, 32, 64)]
  cases += [(rng.below(n - 1) + 1, rng.below(n - 1) + 1, hl)
            for hl in range(0, 65)]
  while len(cases) < spec['n']:
    cases.append((rng.choice(edge + [rng.below(n - 1) + 1] * 3),
                  rng.choice(edge + [rng.below(n - 1) + 1] * 3),
                  rng.choice([0, 16, 20, 28, 32, 33, 48, 64, 65, 66,
                              rng.randint(0, 80)])))
  for i, (d, k, hl) in enumerate(cases):
    if not ctx.want('m%d' % i):
      continue
    h = _digest(ctx, rng, hl)
    if d not in pubs:
      pubs[d] = sigs.mulg(curve, d)
    sig = sigs.sign_k(curve, d, pubs[d], k, h, pad=rng.choice([0, 0, 1, 3]))
    if sig is None:
      ctx.count('degenerate_skipped')
      continue
    ctx.distinct(curve, d, k, h)
    ctx.count('hashlen_vs_order:%s' % ('longer' if hl * 8 > n.bit_length()
                                       else 'equal' if hl * 8 == n.bit_length()
                                       else 'shorter'))
    _relation(ctx, curve, sig, d, k, 'model signer')
  try:
    ctx.sample({'curve': curve, 'd': d, 'k': k, 'hash_len': hl})
  except NameError:
    pass


def run_cross(ctx, spec):
  """The same digest signed on several curves inside one process, in varying
  curve orders, directly and through a check on a mixed batch (state kept
  between calls must not leak from one curve to the next)."""
  from paranoid_crypto.lib import ecdsa_sig_checks as sc
  rng = ctx.rng('cross')
  msb = sc.CheckNonceMSB()
  for i in range(spec['n']):
    if not ctx.want('x%d' % i):
      continue
    h = _digest(ctx, rng, rng.choice([20, 32, 48, 64, 66, 72]))
    curves = rng.sample(gen.NAMED, rng.randint(2, 5))
    batch = []
    for curve in curves:
      n = gen.model_curve(curve).n
      d, k = rng.below(n - 1) + 1, rng.below(n - 1) + 1
      pub = sigs.mulg(curve, d)
      sig = sigs.sign_k(curve, d, pub, k, h)
      if sig is None:
        continue
      ctx.distinct('cross', curve, h)
      ctx.count('same_digest_on_several_curves')
      _relation(ctx, curve, sig, d, k, 'digest shared with %d other curves' %
                (len(curves) - 1))
      batch.append((curve, d, k, sig))
    if i % 5 == 0 and batch:
      # through a check (the check converts every signature of the batch),
      # then the relation again
      msb.Check([type(s)().FromString(s.SerializeToString())
                 for _, _, _, s in batch])
      for curve, d, k, sig in reversed(batch):
        _relation(ctx, curve, sig, d, k, 'after a mixed-curve Check() call')
  try:
    ctx.sample({'digest_len': len(h), 'curves': curves})
  except NameError:
    pass


def run_incheck(ctx, spec):
  """The (a, b) pairs the nonce checks derive *inside* Check(): a contract on
  hnp.HiddenNumberProblem / HiddenNumberProblemForCurve demands that all pairs
  of one call belong to one issuer of the batch and reproduce its nonces."""
  from paranoid_crypto.lib import ecdsa_sig_checks as sc
  from paranoid_crypto.lib import hidden_number_problem as hnp
  rng = ctx.rng('incheck')
  truth = {}     # curve order -> list of (d, set of nonces)

  def check_pairs(a, b, n, what):
    ctx.count('evaluations')
    ctx.count('contract:lattice-input-pairs')
    cands = truth.get(int(n), [])
    ok = any(all((int(x) + int(y) * d) % n in ks for x, y in zip(a, b)
                 if (int(x), int(y)) != (0, 1)) for d, ks in cands)
    if cands and not ok:
      ctx.violation('derived-pairs-do-not-belong-to-one-issuer@%s' % what,
                    '%s received %d (a, b) pairs that do not satisfy k = a + '
                    'b*d for the nonces of any single issuer of the batch' % (
                        what, len(a)), {'n': int(n), 'pairs': len(a)})

  orig_hnp, orig_curve = hnp.HiddenNumberProblem, hnp.HiddenNumberProblemForCurve

  def w_hnp(a, b, w, n, bias):
    check_pairs(a, b, n, 'HiddenNumberProblem')
    return orig_hnp(a, b, w, n, bias)

  def w_curve(a, b, curve_type, lcg, flags):
    from paranoid_crypto.lib import ec_util
    check_pairs(a, b, ec_util.CURVE_FACTORY[curve_type].n,
                'HiddenNumberProblemForCurve')
    return orig_curve(a, b, curve_type, lcg, flags)
  hnp.HiddenNumberProblem, hnp.HiddenNumberProblemForCurve = w_hnp, w_curve
  try:
    checks = [getattr(sc, c)() for c in (
        'CheckNonceMSB', 'CheckNonceCommonPrefix', 'CheckNonceCommonPostfix',
        'CheckNonceGeneralized', 'CheckLCGNonceGMP',
        'CheckLCGNonceJavaUtilRandom')]
    for i in range(spec['n']):
      if not ctx.want('i%d' % i):
        continue
      curve = rng.choice(['CURVE_SECP256R1', 'CURVE_SECP256K1',
                          'CURVE_SECP224R1', 'CURVE_SECP384R1'])
      n = gen.model_curve(curve).n
      truth.clear()
      batch = []
      for who in range(rng.randint(2, 3)):
        d = rng.below(n - 1) + 1
        pub = sigs.mulg(curve, d)
        ks = sigs.nonces_msb(rng, n, 64, 6) if who == 1 else \
            sigs.nonces_uniform(rng, n, rng.randint(1, 5))
        truth.setdefault(int(n), []).append((d, set(ks)))
        mine = sigs.sign_many(rng, curve, d, pub, ks, rng.choice([20, 32, 64]))
        # exact duplicates of one signature (de-duplicated by the checks)
        if mine and rng.chance(2, 3):
          for _ in range(rng.randint(1, 5)):
            dup = type(mine[0])()
            dup.CopyFrom(mine[0])
            mine.append(dup)
        batch.append(mine)
      if rng.chance(1, 2):
        batch.reverse()
      flat = [s_ for m in batch for s_ in m]
      if i % 3 == 0:
        rng.shuffle(flat)
      ctx.distinct('incheck', curve, i)
      for chk in checks:
        chk.Check([type(s_)().FromString(s_.SerializeToString())
                   for s_ in flat])
  finally:
    hnp.HiddenNumberProblem, hnp.HiddenNumberProblemForCurve = orig_hnp, \
        orig_curve
  try:
    ctx.sample({'curve': curve, 'issuers': len(batch), 'signatures': len(flat)})
  except NameError:
    pass


def rfc6979_k(x, q, h1, hname):
  """RFC 6979 section 3.2 (HMAC_DRBG) nonce for private key x, order q."""
  qlen = q.bit_length()
  rlen = (qlen + 7) // 8
  hf = getattr(hashlib, hname)
  hlen = hf().digest_size

  def bits2int(b):
    v = int.from_bytes(b, 'big')
    if len(b) * 8 > qlen:
      v >>= len(b) * 8 - qlen
    return v

  def int2octets(v):
    return v.to_bytes(rlen, 'big')

  def bits2octets(b):
    return int2octets(bits2int(b) % q)

  V = b'\x01' * hlen
  K = b'\x00' * hlen
  K = hmac.new(K, V + b'\x00' + int2octets(x) + bits2octets(h1), hf).digest()
  V = hmac.new(K, V, hf).digest()
  K = hmac.new(K, V + b'\x01' + int2octets(x) + bits2octets(h1), hf).digest()
  V = hmac.new(K, V, hf).digest()
  while True:
    T = b''
    while len(T) * 8 < qlen:
      V = hmac.new(K, V, hf).digest()
      T += V
    k = bits2int(T)
    if 1 <= k < q:
      return k
    K = hmac.new(K, V + b'\x00', hf).digest()
    V = hmac.new(K, V, hf).digest()


def run_ossl(ctx, spec):
  from cryptography.hazmat.primitives import hashes
  from cryptography.hazmat.primitives.asymmetric import ec as cec
  from cryptography.hazmat.primitives.asymmetric import utils as cutils
  rng = ctx.rng('ossl')
  curve = spec['curve']
  o = sigs._ossl_curve(curve)
  if not o:
    ctx.count('openssl_curve_unsupported')
    return
  _, cls = o
  mc = gen.model_curve(curve)
  n = mc.n
  hcls = {20: hashes.SHA1, 28: hashes.SHA224, 32: hashes.SHA256,
          48: hashes.SHA384, 64: hashes.SHA512}
  for i in range(spec['n']):
    if not ctx.want('o%d' % i):
      continue
    d = rng.choice([1, 2, n - 1, n - 2] + [rng.below(n - 1) + 1] * 8)
    key = cec.derive_private_key(d, cls())
    pn = key.public_key().public_numbers()
    hl = rng.choice(sorted(hcls))
    digest = _digest(ctx, rng, hl)
    det = i % 2 == 0
    try:
      der = key.sign(digest, cec.ECDSA(cutils.Prehashed(hcls[hl]()),
                                       deterministic_signing=det))
    except Exception:  # pylint: disable=broad-except
      ctx.count('openssl_sign_unsupported')
      continue
    r, s = cutils.decode_dss_signature(der)
    sig = gen.ecdsa_sig(curve, r, s, digest, (pn.x, pn.y),
                        pad=rng.choice([0, 0, 2]))
    ctx.distinct(curve, d, digest, r)
    k_known = rfc6979_k(d, n, digest, HASHES[hl]) if det else None
    kk = _relation(ctx, curve, sig, d, k_known,
                   'OpenSSL %s signature' % ('RFC 6979' if det else 'random'))
    ctx.count('openssl_signatures')
    if det:
      ctx.count('rfc6979_nonces_compared')
    if kk is not None:
      R = sigs.mulg(curve, kk)
      if R is mec.INF or R[0] % n != r:
        ctx.violation('recovered-nonce-does-not-reproduce-r',
                      'OpenSSL signature on %s: x((a+b*d)G) mod n != r' % curve,
                      {'curve': curve, 'd': d, 'r': r, 's': s, 'hash': digest})
  try:
    ctx.sample({'curve': curve, 'signer': 'OpenSSL', 'd': d, 'r': r, 's': s,
                'digest_len': hl, 'deterministic': det})
  except NameError:
    pass


def run_conv(ctx, spec):
  from paranoid_crypto import paranoid_pb2
  from paranoid_crypto.lib import ec_util
  from paranoid_crypto.lib import util
  rng = ctx.rng('conv')

  def rt(v):
    ctx.count('evaluations')
    b = util.Int2Bytes(v)
    if util.Bytes2Int(b) != v or len(b) != (v.bit_length() + 7) // 8 or not \
        isinstance(b, bytes):
      ctx.violation('int-bytes-roundtrip', 'Int2Bytes(%d) = %r' % (v, b),
                    {'v': v})
    for pad in (1, 3):
      if util.Bytes2Int(b'\x00' * pad + b) != v:
        ctx.violation('bytes2int-leading-zeros', 'v=%d pad=%d' % (v, pad),
                      {'v': v})
    # exact byte strings, leading zero bytes included (a digest's length is
    # part of its meaning: it sets the truncation of 2.4)
    for pad in (0, 1, 2, 5):
      b2 = b'\x00' * pad + b
      hs2 = b2.hex()
      try:
        got = util.Hex2Bytes(hs2)
        odd = util.Hex2Bytes(hs2[1:]) if hs2[:1] == '0' else b2
      except Exception as e:  # pylint: disable=broad-except
        got = odd = repr(e)
      ctx.count('hex_bytes_roundtrips')
      if got != b2 or odd != b2:
        ctx.violation('hex2bytes-bytes-roundtrip',
                      'Hex2Bytes(%r) -> %r (odd-length form -> %r)' % (
                          hs2[:40], got if isinstance(got, str) else got.hex()[:40],
                          odd if isinstance(odd, str) else odd.hex()[:40]),
                      {'hex': hs2})
    hx = format(v, 'x')
    for hs in (hx, '0' + hx, hx.upper()):
      try:
        got = util.Bytes2Int(util.Hex2Bytes(hs))
      except Exception as e:  # pylint: disable=broad-except
        got = repr(e)
      if got != v:
        ctx.violation('hex2bytes', 'Hex2Bytes(%r) -> %r, want %d' % (hs, got, v),
                      {'hex': hs})
  for v in range(1 << 16):
    if ctx.want('small'):
      rt(v)
  for i in range(spec['n']):
    if ctx.want('c%d' % i):
      v = rng.bits(rng.choice([8, 16, 17, 63, 64, 65, 255, 256, 257, 521, 528,
                               rng.randint(1, 700)]))
      if i % 5 == 0:
        v = (1 << (8 * rng.randint(1, 70))) - rng.choice([0, 1])
      ctx.distinct('conv', v)
      rt(v)
      # PublicPoint / ECDSAValues field decoding with leading zero bytes
      ctx.count('evaluations')
      x, y = rng.bits(256), rng.bits(255)
      key = gen.ec_key('CURVE_SECP256R1', x, y, pad=rng.choice([0, 1, 5]))
      P = ec_util.PublicPoint(key.ec_info)
      if (int(P[0]), int(P[1])) != (x, y):
        ctx.violation('publicpoint-decoding', '%r' % (P,), {'x': x, 'y': y})
      sig = gen.ecdsa_sig('CURVE_SECP256R1', v % (2 ** 255) + 1, x | 1,
                          rng.bytes(32), (x, y), pad=rng.choice([0, 2]))
      r, s, _ = ec_util.ECDSAValues(sig.ecdsa_sig_info,
                                    gen.repo_curve('CURVE_SECP256R1'))
      if (int(r), int(s)) != (v % (2 ** 255) + 1, x | 1):
        ctx.violation('ecdsavalues-decoding', 'r/s decoded wrongly', None)
  try:
    ctx.sample({'conversion': 'Int2Bytes/Bytes2Int/Hex2Bytes', 'value': v})
  except NameError:
    pass


def run(ctx, spec):
  from paranoid_crypto.lib import ec_util
  from vp import contracts
  pm = contracts.PurityMonitor(ctx, keep=80)
  pm.wrap(ec_util.EcCurve, 'TransformOrderLen')
  pm.wrap(ec_util.EcCurve, 'HiddenNumberParams')
  pm.wrap(ec_util, 'ECDSAValues', norm=lambda v: tuple(int(x) for x in v))
  try:
    _run(ctx, spec)
    pm.recheck()
  finally:
    pm.restore()


def _run(ctx, spec):
  s = spec['shard']
  if s.startswith('model'):
    run_model(ctx, spec)
  elif s.startswith('ossl'):
    run_ossl(ctx, spec)
  elif s.startswith('cross'):
    run_cross(ctx, spec)
  elif s.startswith('incheck'):
    run_incheck(ctx, spec)
  else:
    run_conv(ctx, spec)


def finalize(agg, tier):
  c = agg['counters']
  need = ['digest_with_leading_zero_bits', 'hashlen_vs_order:longer', 'hashlen_vs_order:equal',
          'hashlen_vs_order:shorter', 'openssl_signatures',
          'same_digest_on_several_curves', 'contract:lattice-input-pairs',
          'rfc6979_nonces_compared']
  return [], ['reach counter %s is zero' % k for k in need if not c.get(k)]
