"""C03 - shared-factor detection across a batch is exact for every batch
shape.  Naive O(N^2) gcd model next to BatchGCD / CheckGCD / CheckGCDN1, a
contract on the product tree, every batch size in the stated range."""
import math

from vp import contracts
from vp import gen

ID = 'C03'
RULE = ('one evaluation = one element of one batch compared with '
        'gcd(value, extra * product of the other distinct values); distinct '
        'by (batch size, value set, position); non-trivial = the value shares '
        'a factor with another distinct value of the batch')
ASSUMPTIONS = ['model: math.gcd with an explicit product']
EXHAUSTIVE_SUBSPACES = ['every batch size 0..130 (thorough 0..520), several '
                        'value sets per size']


def plan(tier, seed):
  q = tier == 'quick'
  top = 130 if q else 520
  specs = [{'shard': 'ints-%d' % i, 'part': i, 'parts': 8, 'top': top,
            'sets': 12 if q else 24} for i in range(8)]
  specs += [{'shard': 'keys-%d' % i, 'part': i, 'parts': 6,
             'top': 60 if q else 200, 'n': 60 if q else 240,
             'large': [257 + 3 * i, 513 + i] if q else [
                 257 + i, 300 + 9 * i, 513 + i, 1025 + i, 2049 + i]}
            for i in range(6)]
  return specs


def model_batchgcd(values, extra=None):
  if len(values) > 150:
    # same definition, one product: gcd(v, (extra *) prod(distinct) / v)
    prod = extra if extra else 1
    for w in set(values):
      prod *= w
    return [math.gcd(v, prod // v) for v in values]
  out = []
  for v in values:
    prod = extra if extra else 1
    for w in set(values):
      if w != v:
        prod *= w
    out.append(math.gcd(v, prod))
  return out


def tree_contract(res, values):
  tree, t = res
  vals = [int(v) for v in values]
  if not vals:
    return None
  P = math.prod(vals)
  if int(t) != sum(P // v for v in vals if v) and all(vals):
    return 'T != sum(P // v)'
  if any(v and (int(t) - P // v) % v for v in vals):
    return 'T % v != P // v % v for some leaf'
  if [int(x) for x in tree[0]] != vals or int(tree[-1][0]) != P:
    return 'leaf or root level wrong'
  for lo, hi in zip(tree, tree[1:]):
    if [int(x) for x in hi] != [math.prod(int(y) for y in lo[j:j + 2])
                                for j in range(0, len(lo), 2)]:
      return 'level is not the pairwise product of the level below'
  return None


def _value_sets(rng, size, kind):
  """Integer batches of a given size with dense / structured sharing."""
  if size == 0:
    return []
  primes = [2, 3, 5, 7, 11, 13, 17, 19, 23, 29, 31, 37, 41, 43, 47, 53, 59,
            61, 67, 71, 73, 79, 83, 89, 97, 101, 103, 107, 109, 113]
  if kind == 0:     # tiny integers, dense sharing
    return [rng.randint(1, 400) for _ in range(size)]
  if kind == 1:     # products of two small primes (many partners)
    return [rng.choice(primes) * rng.choice(primes) for _ in range(size)]
  if kind == 2:     # all equal
    return [rng.choice([6, 35, 1, 221])] * size
  if kind == 3:     # distinct primes (nothing shared) + one composite at the
    vals = [int(gen_prime(rng, 40)) for _ in range(size)]   # last position
    if size >= 2 and rng.chance(1, 2):
      vals[-1] = vals[0] * int(gen_prime(rng, 40))
    return vals
  if kind == 4:     # nested: value dividing another, duplicates at the edges
    vals = [rng.randint(2, 10 ** 6) for _ in range(size)]
    if size >= 2:
      vals[0] = vals[-1] * rng.randint(1, 50)
    if size >= 3:
      vals[1] = vals[-1]
    if size >= 5:
      vals[size // 2] = vals[0]
    return vals
  # 64..512-bit semiprimes sharing 0/1/several primes with several partners
  pool = [int(gen_prime(rng, rng.choice([32, 64, 128, 256])))
          for _ in range(max(2, size // 2 + 1))]
  vals = [rng.choice(pool) * rng.choice(pool) for _ in range(size)]
  if size and rng.chance(1, 2):
    vals[rng.below(size)] = 1
  return vals


def gen_prime(rng, bits):
  return rng.prime(bits)


def run_ints(ctx, spec):
  import gmpy2
  from paranoid_crypto.lib import ntheory_util
  from paranoid_crypto.lib import rsa_util
  mon = contracts.monitor(ctx, ntheory_util, 'ExtendedProductTree',
                          tree_contract)
  pm = contracts.PurityMonitor(ctx, keep=120, max_repr=20000)
  pm.wrap(rsa_util, 'BatchGCD', norm=lambda v: [int(x) for x in v])
  rng = ctx.rng('ints')
  try:
    for size in range(spec['part'], spec['top'] + 1, spec['parts']):
      for k in range(spec['sets']):
        if not ctx.want('%d/%d' % (size, k)):
          continue
        vals = _value_sets(rng, size, (k + size) % 6)
        if k >= 6 and vals and rng.chance(1, 2):
          # duplicates at first / last / odd positions
          vals[rng.choice([0, -1, len(vals) // 2])] = rng.choice(vals)
        if rng.chance(1, 2):
          rng.shuffle(vals)
        extra = rng.choice([None, None, 1, vals[0] if vals else 7,
                            3 * 5 * 7 * 1009, int(gen_prime(rng, 64))])
        want = model_batchgcd(vals, extra)
        args = [[gmpy2.mpz(v) for v in vals]] + ([extra] if extra is not None
                                                 and rng.chance(3, 4) else [])
        if len(args) == 1:
          want = model_batchgcd(vals, None)
        try:
          got = rsa_util.BatchGCD(*args)
        except Exception as e:  # pylint: disable=broad-except
          ctx.count('evaluations')
          ctx.violation('batchgcd-raised-%s%s' % (type(e).__name__,
                                                  '-empty-batch' if not vals
                                                  else ''),
                        'BatchGCD(%d values) raised %r' % (len(vals), e),
                        {'values': vals, 'extra': extra})
          continue
        ctx.count('evaluations', max(1, len(vals)))
        ctx.count('batch_sizes_seen')
        if len(set(vals)) % 2 == 1 and len(set(vals)) > 1:
          ctx.count('odd_level_batches')
        got = [int(g) for g in got]
        if got != want:
          i = next((j for j in range(min(len(got), len(want)))
                    if got[j] != want[j]), None)
          ctx.violation('batchgcd-differs-from-model',
                        'BatchGCD over %d values (%d distinct): element %r = '
                        '%r, gcd with the others = %r' % (
                            len(vals), len(set(vals)), i,
                            got[i] if i is not None else len(got),
                            want[i] if i is not None else len(want)),
                        {'values': vals, 'extra': extra})
        for i, (v, w) in enumerate(zip(vals, want)):
          if w > 1 and w != v or (w == v and v > 1):
            ctx.distinct(size, k, i)
    pm.recheck()
  finally:
    pm.restore()
    mon.restore()
  try:
    ctx.sample({'batch_size': size, 'values': vals[:6], 'extra': extra})
  except NameError:
    pass


def run_keys(ctx, spec):
  from paranoid_crypto.lib import rsa_aggregate_checks as agg
  rng = ctx.rng('keys')
  pool = [rng.prime(b) for b in (64, 64, 96, 128, 256, 256, 512, 512)
          for _ in range(3)]
  sizes = list(range(spec['part'], spec['top'] + 1, spec['parts']))
  large = spec.get('large', [])
  for it in range(spec['n'] + len(large)):
    size = large[it - spec['n']] if it >= spec['n'] else sizes[
        it % len(sizes)] if it < len(sizes) else rng.randint(0, spec['top'])
    if not ctx.want('b%d' % it):
      continue
    ns = []
    if it >= spec['n']:
      # batches beyond 256/512/1024 keys: mostly healthy, with duplicates and
      # shared primes planted at the ends and around the power-of-two marks
      ns = [rng.prime(64) * rng.prime(64) for _ in range(size)]
      marks = sorted(set([0, 1, 2, size // 3, size // 2, size - 3, size - 2,
                          size - 1] + [m + d for m in (
                              255, 256, 511, 512, 1023, 1024) for d in (0, 1)
                                       if m + d < size]))
      a, b = rng.sample(marks, 2)
      ns[b] = ns[a]                                            # duplicate
      c, d2 = rng.sample([m for m in marks if m not in (a, b)], 2)
      sp = rng.choice(pool)
      ns[c], ns[d2] = sp * rng.prime(64), sp * rng.prime(64)   # shared prime
      e2 = rng.choice([m for m in marks if m not in (a, b, c, d2)])
      ns[e2] = ns[a] * rng.prime(64)                           # nested
      ctx.count('large_key_batches')
      size = 0
    for _ in range(size):
      k = rng.below(10)
      if k < 4:
        ns.append(rng.choice(pool) * rng.choice(pool))        # sharing
      elif k < 7:
        ns.append(rng.prime(64) * rng.prime(64))              # healthy
      elif k == 7 and ns:
        ns.append(rng.choice(ns))                             # duplicate
      elif k == 8 and ns:
        ns.append(rng.choice(ns) * rng.prime(64))             # nested
      else:
        # n-1 sharing a large factor with another key's n-1
        f = rng.choice(pool[-6:])
        for _ in range(200):
          c = f * rng.bits(70) * 2 + 1
          if c.bit_length() >= 64:
            break
        ns.append(c)
    ns = [n for n in ns if n.bit_length() >= 64]
    if it < spec['n']:
      rng.shuffle(ns)
    keys = [gen.rsa_key(n) for n in ns]
    # CheckGCD
    try:
      ret = agg.CheckGCD().Check(keys)
    except Exception as e:  # pylint: disable=broad-except
      ctx.count('evaluations')
      ctx.violation('checkgcd-raised-%s%s' % (type(e).__name__,
                                              '-empty-batch' if not ns else ''),
                    'CheckGCD on %d keys raised %r' % (len(ns), e), {'ns': ns})
      ret = None
    want = model_batchgcd(ns)
    if ret is not None:
      anyw = False
      for i, (k, n, g) in enumerate(zip(keys, ns, want)):
        ctx.count('evaluations')
        ent = gen.entries(k.test_info).get('CheckGCD')
        fac = gen.attached(k.test_info).get('N_FACTORS')
        flagged = bool(ent and ent[0])
        anyw |= flagged
        if g > 1:
          ctx.distinct('gcd', it, i)
          ctx.count('keys_with_shared_factor')
        facs = set(int(x, 16) for x in eval(fac)) if fac else set()  # pylint: disable=eval-used
        if flagged != (g > 1):
          ctx.violation('checkgcd-verdict', 'key %d of %d: flagged=%s but gcd '
                        'with the other distinct moduli = %d' % (
                            i, len(ns), flagged, g), {'ns': ns, 'i': i})
        elif flagged and (g not in facs or any(f <= 0 or n % f for f in facs)):
          # (the property asks for the gcd to be recorded; further divisors of
          # n next to it - F21's proper divisor - are not a violation)
          ctx.violation('checkgcd-recorded-factor', 'key %d: recorded %r, '
                        'gcd = %d' % (i, sorted(facs), g), {'ns': ns, 'i': i})
      if bool(ret) != anyw or (not ns and ret is not False):
        ctx.violation('checkgcd-return', 'returned %r' % (ret,), {'ns': ns})
    # CheckGCDN1 with several bounds
    # bounds: powers of two and values at / next to the gcds that occur (the
    # comparison is against the bound itself, not its size)
    gs = sorted({g for g in model_batchgcd([n - 1 for n in ns]) if g > 2})
    near = []
    for g in ([rng.choice(gs), gs[-1]] if gs else []):
      near += [g, g + 1, g - 1, g + g // 8 + 1, 3 << max(g.bit_length() - 2, 0)]
    if near:
      ctx.count('n1_bounds_next_to_a_gcd', len(near))
    for bound in [1, 2, 2 ** 20, 2 ** 128] + (near if len(ns) <= 70 else
                                              near[:2]):
      keys = [gen.rsa_key(n) for n in ns]
      try:
        ret = agg.CheckGCDN1(gcd_bound=bound).Check(keys)
      except Exception as e:  # pylint: disable=broad-except
        ctx.count('evaluations')
        ctx.violation('checkgcdn1-raised-%s%s' % (
            type(e).__name__, '-empty-batch' if not ns else ''),
                      'CheckGCDN1 on %d keys raised %r' % (len(ns), e),
                      {'ns': ns})
        continue
      want = model_batchgcd([n - 1 for n in ns])
      for i, (k, n, g) in enumerate(zip(keys, ns, want)):
        ctx.count('evaluations')
        ent = gen.entries(k.test_info).get('CheckGCDN1')
        fac = gen.attached(k.test_info).get('N-1_FACTORS')
        flagged = bool(ent and ent[0])
        if g >= bound and bound > 2:
          ctx.count('n1_large_shared')
          ctx.distinct('n1', it, i, bound)
        facs = set(int(x, 16) for x in eval(fac)) if fac else set()  # pylint: disable=eval-used
        if flagged != (g >= bound):
          ctx.violation('checkgcdn1-verdict', 'key %d: flagged=%s, gcd(n-1, '
                        'others) = %d, bound ~2^%d' % (
                            i, flagged, g, bound.bit_length() - 1),
                        {'ns': ns, 'i': i, 'bound': bound})
        elif flagged and facs != {g}:
          ctx.violation('checkgcdn1-recorded-factor', 'key %d: recorded %r, '
                        'gcd = %d' % (i, sorted(facs), g), {'ns': ns, 'i': i})
      if not ns and ret is not False:
        ctx.violation('checkgcdn1-return', 'empty batch returned %r' % (ret,),
                      None)
  try:
    ctx.sample({'batch_size': len(ns), 'moduli': ns[:3]})
  except NameError:
    pass


def run(ctx, spec):
  if spec['shard'].startswith('ints'):
    run_ints(ctx, spec)
  else:
    run_keys(ctx, spec)


def finalize(agg, tier):
  c = agg['counters']
  inc = ['reach counter %s is zero' % k for k in (
      'contract:ExtendedProductTree', 'odd_level_batches',
      'keys_with_shared_factor', 'n1_large_shared', 'large_key_batches',
      'n1_bounds_next_to_a_gcd') if not c.get(k)]
  top = 130 if tier == 'quick' else 520
  if c.get('batch_sizes_seen', 0) < top and not agg['violations']:
    inc.append('fewer batch sizes observed than planned')
  return [], inc
