"""C08 - ECDSA signatures with biased or predictable nonces reveal the signing
key.  Generator-side ground truth (d and all nonces known); lattice detection
is decided by *rate monitors* per calibrated regime (spec/regimes.json),
deterministic clauses (wrong key recorded, foreign issuer's verdict changed)
per execution."""
import json
import math
import os

from vp import gen
from vp import harness
from vp import rates
from vp import sigs

ID = 'C08'
RULE = ('one evaluation = one batch in which all signatures of one issuer use '
        'biased/predictable nonces inside the stated margin (N*width >= '
        '2*curve bits, >= 24 signatures for the multiplied form; two U2F '
        'signatures; sliding_window_size GMP-LCG signatures), submitted to the '
        'corresponding check; hit = every signature of that issuer weak with '
        'the correct private key; distinct by batch; all are non-trivial')
ASSUMPTIONS = ['regime statuses (enforced / gap) come from a calibration on '
               'the unchanged tree committed as spec/regimes.json; enforced '
               'regimes fail the run when misses are implausible for a miss '
               'rate <= 5% (alpha 1e-7)', 'GMP lc_2exp emulator written from '
               'randlc2x.c (validated at design time against the listed '
               'unseeded outputs and against all shipped models)']
EXHAUSTIVE_SUBSPACES = []
REGIMES_PATH = os.path.join(harness.VERIF, 'spec', 'regimes.json')
KINDS = {'msb': ('CheckNonceMSB', sigs.nonces_msb),
         'prefix': ('CheckNonceCommonPrefix', sigs.nonces_prefix),
         'postfix': ('CheckNonceCommonPostfix', sigs.nonces_postfix),
         'gen': ('CheckNonceGeneralized', sigs.nonces_generalized)}
CLASS_CURVES = {'256': ['CURVE_SECP256R1', 'CURVE_SECP256K1',
                        'CURVE_SECP224R1', 'CURVE_BRAINPOOLP256R1'],
                '384': ['CURVE_SECP384R1', 'CURVE_BRAINPOOLP384R1'],
                '512': ['CURVE_SECP521R1', 'CURVE_BRAINPOOLP512R1']}
MARGINS = [1.0, 1.3, 1.6, 2.2]


def width_class(w):
  return '16-24' if w <= 24 else '32-64' if w <= 64 else '96+'


def margin_class(f):
  return '[1,1.25)' if f < 1.25 else '[1.25,1.5)' if f < 1.5 else \
      '[1.5,2)' if f < 2 else '>=2'


def regime(kind, cclass, width, f):
  return '%s/%s/w%s/f%s' % (kind, cclass, width_class(width), margin_class(f))


def load_regimes():
  if os.path.exists(REGIMES_PATH):
    return json.load(open(REGIMES_PATH))['regimes']
  return {}


def cell_list(tier):
  """(kind, curve class, width, margin) cells with their trial weight."""
  q = tier == 'quick'
  cells = []
  for kind in KINDS:
    for cclass in CLASS_CURVES:
      widths = [32, 48, 64] if q else [16, 24, 32, 48, 64, 96, 128]
      if q and cclass == '512':
        widths = [48, 64]
      if not q and cclass == '512':
        widths = [32, 48, 64, 96, 128]
      for w in widths:
        for f in MARGINS:
          cells.append((kind, cclass, w, f))
  return cells


def plan(tier, seed):
  q = tier == 'quick'
  cells = cell_list(tier)
  nsh = 16 if q else 48
  specs = [{'shard': 'bias-%d' % i, 'part': i, 'parts': nsh,
            'reps': 3 if q else 10, 'weight': 5} for i in range(nsh)]
  specs += [{'shard': 'window-%d' % i, 'n': 3 if q else 12, 'weight': 3}
            for i in range(3)]
  specs += [{'shard': 'hashlen-%d' % i, 'n': 10 if q else 50, 'weight': 4}
            for i in range(4)]
  specs += [{'shard': 'twoissuers-%d' % i, 'n': 3 if q else 12, 'weight': 6}
            for i in range(4)]
  specs += [{'shard': 'u2f-%d' % i, 'n': 12 if q else 60} for i in range(2)]
  specs += [{'shard': 'topkey-%d' % i, 'part': i, 'parts': 4,
             'reps': 4 if q else 12, 'weight': 6} for i in range(4)]
  specs += [{'shard': 'gmp-%d' % i, 'part': i, 'parts': 4,
             'reps': 3 if q else 12, 'weight': 2} for i in range(4)]
  return specs


def _judge(ctx, arts, meta, name, d, n, reg):
  """meta[i] = 'A' for the biased issuer; returns hit?"""
  hit = True
  for a, who in zip(arts, meta):
    ent = gen.entries(a.test_info).get(name)
    v = sigs.dlog_of(a)
    if who == 'A':
      if not (ent and ent[0] and a.test_info.weak):
        hit = False
      elif v is None or v % n != d:
        ctx.violation('wrong-private-key-recorded@%s' % name,
                      '%s recorded %r for a signer whose key is %x (%s)' %
                      (name, v, d, reg), {'d': d, 'regime': reg})
        hit = False
    else:
      if ent and ent[0]:
        ctx.violation('foreign-issuer-accused@%s' % name,
                      '%s marked a healthy signature of another issuer weak '
                      'next to a biased issuer (%s)' % (name, reg),
                      {'regime': reg})
  return hit


def _batch(rng, curve, d, pub, nonces, with_others=True, hlen=None):
  """Signatures of A (biased) shuffled among other issuers' healthy ones,
  with a duplicate inserted."""
  arts = sigs.sign_many(rng, curve, d, pub, nonces, hlen)
  meta = ['A'] * len(arts)
  if arts and rng.chance(1, 3):
    dup = type(arts[0])()
    dup.CopyFrom(rng.choice(arts))
    arts.append(dup)
    meta.append('A')
  if with_others:
    n = gen.model_curve(curve).n
    for _ in range(rng.choice([0, 1, 2])):
      dB, pubB = sigs.issuer(rng, curve)
      sb = sigs.sign_many(rng, curve, dB, pubB, sigs.nonces_uniform(
          rng, n, rng.randint(1, 4)))
      arts += sb
      meta += ['B'] * len(sb)
    if rng.chance(1, 3):
      c2 = rng.choice([c for c in gen.STRONG if c != curve])
      dC, pubC = sigs.issuer(rng, c2)
      sc_ = sigs.sign_many(rng, c2, dC, pubC, sigs.nonces_uniform(
          rng, gen.model_curve(c2).n, rng.randint(1, 3)))
      arts += sc_
      meta += ['C'] * len(sc_)
  order = list(range(len(arts)))
  rng.shuffle(order)
  return [arts[i] for i in order], [meta[i] for i in order]


def run_bias(ctx, spec):
  from paranoid_crypto.lib import ecdsa_sig_checks as sc
  rng = ctx.rng('bias')
  checks = {k: getattr(sc, v[0])() for k, v in KINDS.items()}
  cells = cell_list(ctx.tier)
  mine = [c for i, c in enumerate(cells) if i % spec['parts'] == spec['part']]
  for (kind, cclass, w, f) in mine:
    for rep in range(spec['reps']):
      if not ctx.want('%s/%s/%d/%s/%d' % (kind, cclass, w, f, rep)):
        continue
      curve = rng.choice(CLASS_CURVES[cclass])
      n = gen.model_curve(curve).n
      bits = n.bit_length()
      count = math.ceil(f * 2 * bits / w)
      if kind == 'gen':
        count = max(count, 24)
      fa = count * w / (2 * bits)
      reg = regime(kind, cclass, w, fa)
      d, pub = sigs.issuer(rng, curve)
      nonces = KINDS[kind][1](rng, n, w, count)
      arts, meta = _batch(rng, curve, d, pub, nonces)
      name = KINDS[kind][0]
      try:
        checks[kind].Check(arts)
      except Exception as e:  # pylint: disable=broad-except
        ctx.violation('check-raised-%s@%s' % (type(e).__name__, name), repr(e),
                      {'regime': reg})
        continue
      hit = _judge(ctx, arts, meta, name, d, n, reg)
      ctx.count('evaluations')
      ctx.distinct(reg, d)
      ctx.count('tried:' + reg)
      ctx.count(('hit:' if hit else 'miss:') + reg)
      ctx.sample({'regime': reg, 'curve': curve, 'width': w, 'signatures':
                  count, 'd': d, 'other_issuers': meta.count('B') +
                  meta.count('C')})


def run_window(ctx, spec):
  """Counts straddling the 24/48/120 windows (always inside the margin)."""
  from paranoid_crypto.lib import ecdsa_sig_checks as sc
  rng = ctx.rng('window')
  checks = {k: getattr(sc, v[0])() for k, v in KINDS.items()}
  for i in range(spec['n']):
    for count, w in ((23, 48), (24, 48), (25, 48), (47, 32), (48, 32),
                     (49, 32), (50, 24), (52, 16), (60, 16), (100, 16),
                     (131, 16)) + ((
                         (119, 16), (120, 16), (121, 16))
                                            if ctx.tier != 'quick' else ()):
      kind = rng.choice(['msb', 'prefix', 'postfix'])
      if not ctx.want('%d/%d/%d' % (i, count, w)):
        continue
      curve = rng.choice(CLASS_CURVES['256'])
      if count in (100, 131):
        # 16 biased bits on a 512/521-bit curve: 24 signatures carry fewer
        # bits than the key, so only the 48/120 windows can succeed
        curve = rng.choice(CLASS_CURVES['512'])
        kind = 'msb'
      n = gen.model_curve(curve).n
      d, pub = sigs.issuer(rng, curve)
      arts, meta = _batch(rng, curve, d, pub, KINDS[kind][1](rng, n, w, count),
                          with_others=False)
      name = KINDS[kind][0]
      try:
        checks[kind].Check(arts)
      except Exception as e:  # pylint: disable=broad-except
        ctx.violation('check-raised-%s@%s' % (type(e).__name__, name),
                      '%r with %d signatures' % (e, count), {'count': count})
        continue
      reg = 'window-straddle/%s' % kind
      hit = _judge(ctx, arts, meta, name, d, n, reg)
      ctx.count('evaluations')
      ctx.distinct(reg, d)
      ctx.count('tried:' + reg)
      ctx.count(('hit:' if hit else 'miss:') + reg)


def run_twoissuers(ctx, spec):
  """Two biased issuers on the same curve in one batch: an easy one first
  (32-bit bias, one window) and one whose bias only shows in the 48/120
  windows (16..20 biased bits on a 384/521-bit curve).  Every issuer must be
  judged with all windows whatever happened to its neighbours."""
  from paranoid_crypto.lib import ecdsa_sig_checks as sc
  rng = ctx.rng('two')
  checks = {k: getattr(sc, v[0])() for k, v in KINDS.items()}
  for i in range(spec['n']):
    if not ctx.want('t%d' % i):
      continue
    cclass = ['384', '512'][i % 2]
    curve = rng.choice(CLASS_CURVES[cclass])
    n = gen.model_curve(curve).n
    bits = n.bit_length()
    kind = ['msb', 'prefix', 'postfix'][i % 3]
    dA, pubA = sigs.issuer(rng, curve)
    dB, pubB = sigs.issuer(rng, curve)
    easy = sigs.sign_many(rng, curve, dA, pubA, KINDS[kind][1](
        rng, n, 48, math.ceil(2.4 * 2 * bits / 48)))
    wB = rng.choice([16, 20])
    hard = sigs.sign_many(rng, curve, dB, pubB, KINDS[kind][1](
        rng, n, wB, math.ceil(2.2 * 2 * bits / wB)))
    dC, pubC = sigs.issuer(rng, curve)
    other = sigs.sign_many(rng, curve, dC, pubC, sigs.nonces_uniform(rng, n, 3))
    order = [easy, hard, other] if i % 4 < 3 else [hard, easy, other]
    arts = [s_ for grp in order for s_ in grp]
    name = KINDS[kind][0]
    try:
      checks[kind].Check(arts)
    except Exception as e:  # pylint: disable=broad-except
      ctx.violation('check-raised-%s@%s' % (type(e).__name__, name), repr(e),
                    None)
      continue
    for who, grp, d in (('easy', easy, dA), ('hard', hard, dB)):
      reg = 'two-biased-issuers/%s' % who
      hit = _judge(ctx, grp + other, ['A'] * len(grp) + ['B'] * len(other),
                   name, d, n, reg)
      ctx.count('evaluations')
      ctx.distinct(reg, d)
      ctx.count('tried:' + reg)
      ctx.count(('hit:' if hit else 'miss:') + reg)
  try:
    ctx.sample({'regime': 'two-biased-issuers', 'curve': curve, 'kind': kind,
                'hard_width': wB})
  except NameError:
    pass


def run_hashlen(ctx, spec):
  """Digests shorter than, equal to and longer than the order (also longer
  than its byte encoding), comfortably inside the margin."""
  from paranoid_crypto.lib import ecdsa_sig_checks as sc
  rng = ctx.rng('hashlen')
  checks = {k: getattr(sc, v[0])() for k, v in KINDS.items()}
  for i in range(spec['n']):
    t = int(spec['shard'][-1]) * spec['n'] + i
    curve = gen.STRONG[t % len(gen.STRONG)]
    n = gen.model_curve(curve).n
    bits = n.bit_length()
    ob = (bits + 7) // 8
    hlen = [ob + 1, ob + 8, 2 * ob, ob + 2, rng.choice([ob, ob - 1, 20])][
        (t // len(gen.STRONG)) % 5]
    kind = rng.choice(['msb', 'prefix', 'postfix'])
    if not ctx.want('%d/%s/%d' % (i, curve, hlen)):
      continue
    w = 64
    count = math.ceil(2.4 * 2 * bits / w)
    d, pub = sigs.issuer(rng, curve)
    arts, meta = _batch(rng, curve, d, pub, KINDS[kind][1](rng, n, w, count),
                        hlen=hlen)
    name = KINDS[kind][0]
    checks[kind].Check(arts)
    cls = 'longer' if hlen > ob else 'equal' if hlen == ob else 'shorter'
    reg = 'hash-%s-than-order/%s' % (cls, curve.replace('CURVE_', '')
                                     if cls == 'longer' else 'any')
    hit = _judge(ctx, arts, meta, name, d, n, reg)
    ctx.count('evaluations')
    ctx.distinct(reg, d)
    ctx.count('tried:' + reg)
    ctx.count(('hit:' if hit else 'miss:') + reg)
  try:
    ctx.sample({'regime': reg, 'curve': curve, 'hash_bytes': hlen})
  except NameError:
    pass


def run_topkey(ctx, spec):
  """Private keys at the top of the range (highest bit of the order length
  set, d close to n), comfortably biased nonces: the confirmation of a
  recovered key multiplies by the *whole* scalar."""
  from paranoid_crypto.lib import ecdsa_sig_checks as sc
  rng = ctx.rng('topkey')
  checks = {k: getattr(sc, v[0])() for k, v in KINDS.items()}
  for i, curve in enumerate(gen.STRONG):
    if i % spec['parts'] != spec['part']:
      continue
    n = gen.model_curve(curve).n
    bits = n.bit_length()
    for rep in range(spec['reps']):
      if not ctx.want('%s/%d' % (curve, rep)):
        continue
      d = [n - 1 - rng.bits(64), (1 << (bits - 1)) + rng.bits(bits - 2),
           n - 1 - rng.bits(bits - 3)][rep % 3]
      d = d if 0 < d < n else n - 2
      _, pub = sigs.issuer(rng, curve, d)
      kind = ['msb', 'prefix', 'postfix'][(i + rep) % 3]
      w = 64
      count = math.ceil(2.4 * 2 * bits / w)
      arts, meta = _batch(rng, curve, d, pub, KINDS[kind][1](rng, n, w, count))
      checks[kind].Check(arts)
      reg = 'top-bit-key/%s' % curve.replace('CURVE_', '')
      hit = _judge(ctx, arts, meta, KINDS[kind][0], d, n, reg)
      ctx.count('evaluations')
      ctx.distinct(reg, d)
      ctx.count('tried:' + reg)
      ctx.count(('hit:' if hit else 'miss:') + reg)
  try:
    ctx.sample({'regime': reg, 'curve': curve, 'd_bits': d.bit_length()})
  except NameError:
    pass


def run_u2f(ctx, spec):
  from paranoid_crypto.lib import ecdsa_sig_checks as sc
  rng = ctx.rng('u2f')
  chk = sc.CheckCr50U2f()
  for i in range(spec['n']):
    curve = gen.NAMED[i % len(gen.NAMED)]
    n = gen.model_curve(curve).n
    if n.bit_length() % 32 or not ctx.want('u%d' % i):
      continue
    d, pub = sigs.issuer(rng, curve)
    arts, meta = _batch(rng, curve, d, pub, sigs.nonces_u2f(rng, n, 2))
    # exactly two signatures of A: drop an inserted duplicate
    chk.Check(arts)
    reg = 'u2f/%d' % n.bit_length()
    hit = _judge(ctx, arts, meta, 'CheckCr50U2f', d, n, reg)
    ctx.count('evaluations')
    ctx.distinct(reg, d)
    ctx.count('tried:' + reg)
    ctx.count(('hit:' if hit else 'miss:') + reg)
  try:
    ctx.sample({'regime': reg, 'curve': curve, 'd': d})
  except NameError:
    pass


def run_gmp(ctx, spec):
  from paranoid_crypto import paranoid_pb2
  from paranoid_crypto.lib import ecdsa_sig_checks as sc
  from paranoid_crypto.lib import lcg_constants
  rng = ctx.rng('gmp')
  chk = sc.CheckLCGNonceGMP()
  models = [c for c in lcg_constants.CONSTANT_FACTORY
            if c['lcg'] == lcg_constants.LcgName.GMP]
  for mi, cst in enumerate(models):
    if mi % spec['parts'] != spec['part']:
      continue
    curve = paranoid_pb2.CurveType.Name(cst['curve'])
    n = gen.model_curve(curve).n
    for rep in range(spec['reps']):
      if not ctx.want('%d/%d' % (mi, rep)):
        continue
      d, pub = sigs.issuer(rng, curve)
      ks = sigs.nonces_gmp(rng, n, cst['lcg_size'], cst['sliding_window_size'])
      arts, meta = _batch(rng, curve, d, pub, ks)
      arts = [a for a, m in zip(arts, meta)]
      chk.Check(arts)
      reg = 'gmp-lcg/%s/%d' % (curve.replace('CURVE_', ''), cst['lcg_size'])
      hit = _judge(ctx, arts, meta, 'CheckLCGNonceGMP', d, n, reg)
      ctx.count('evaluations')
      ctx.distinct(reg, d)
      ctx.count('tried:gmp-lcg')
      ctx.count(('hit:' if hit else 'miss:') + 'gmp-lcg')
      ctx.count('tried:' + reg)
      ctx.count(('hit:' if hit else 'miss:') + reg)
  try:
    ctx.sample({'regime': reg, 'curve': curve, 'lcg_size': cst['lcg_size'],
                'signatures': cst['sliding_window_size']})
  except NameError:
    pass


def run(ctx, spec):
  s = spec['shard']
  for prefix, fn in (('bias', run_bias), ('window', run_window),
                     ('hashlen', run_hashlen), ('topkey', run_topkey),
                     ('twoissuers', run_twoissuers),
                     ('u2f', run_u2f), ('gmp', run_gmp)):
    if s.startswith(prefix):
      return fn(ctx, spec)


def finalize(agg, tier):
  c = agg['counters']
  regs = load_regimes()
  viol, inc = [], []
  enforced_trials = 0
  table = {}
  for k in sorted(c):
    if not k.startswith('tried:'):
      continue
    reg = k[6:]
    n, miss = c[k], c.get('miss:' + reg, 0)
    status = regs.get(reg, {}).get('status', 'unmapped')
    if reg.startswith(('u2f/', 'window-straddle/', 'hash-', 'top-bit-key/',
                       'two-biased-issuers/')) or \
        reg == 'gmp-lcg':
      status = regs.get(reg, {}).get('status', 'enforced')
    if reg.startswith('gmp-lcg/'):
      status = 'info'
    table[reg] = {'n': n, 'miss': miss, 'status': status}
    if status == 'enforced':
      enforced_trials += n
      v = rates.check_max_rate('C08', 'lattice-regime-broken/' + reg, miss, n,
                               p_max=0.05, alpha=1e-7)
      if not v and n >= 4 and miss == n:
        # every batch of the regime missed: not what sporadic (~1%) misses do
        v = {'mech': 'lattice-regime-broken/' + reg,
             'msg': 'all %d batches of enforced regime %s missed' % (n, reg),
             'data': table[reg]}
      if v:
        viol.append(v)
      elif miss:
        viol.append({'mech': 'lattice-sporadic-miss/' + reg,
                     'msg': '%d of %d batches missed in enforced regime %s '
                     '(below the rate threshold)' % (miss, n, reg),
                     'data': table[reg]})
    elif status == 'gap' and miss:
      viol.append({'mech': 'lattice-gap/' + reg,
                   'msg': '%d of %d batches missed in regime %s (calibrated as '
                   'a detection gap)' % (miss, n, reg), 'data': table[reg]})
  c['enforced_trials'] = enforced_trials
  c['regimes_enforced'] = sum(1 for v in table.values()
                              if v['status'] == 'enforced')
  c['regimes_gap'] = sum(1 for v in table.values() if v['status'] == 'gap')
  c['regimes_unmapped'] = sum(1 for v in table.values()
                              if v['status'] == 'unmapped')
  agg['samples'].append({'regime_table': table})
  if enforced_trials < 100:
    inc.append('only %d trials in enforced regimes' % enforced_trials)
  return viol, inc
