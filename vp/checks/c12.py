"""C12 - NIST SP 800-22 statistics and p-values are computed as specified.
Reference-model monitor (vp.models.sp80022, a transcription of the standard),
range contract on every returned p-value, insufficient-data boundaries,
metamorphic invariances and exact derivation of the embedded tables."""
import math
from fractions import Fraction

from vp.models import sp80022 as nist

ID = 'C12'
RULE = ('one evaluation = one p-value returned by a nist_suite test compared '
        'with the transcription of SP 800-22 (|dp| <= 1e-9 + 1e-7 p; rank and '
        'linear-complexity 1e-6 because the code embeds 8-digit / exact '
        'constants where NIST prints 6 digits), range-checked, or compared '
        'across a statistic-preserving transformation; distinct by (test, '
        'string digest, parameters); non-trivial = string is not constant')
ASSUMPTIONS = ['mpmath special functions; numpy FFT for the spectral model',
               'free parameters (block size M of 2.2, template length of 2.7, '
               'm ranges of 2.11/2.12) are read from what the code chose and '
               'checked against the standard\'s admissibility constraints',
               'cusum formula compared for n >= 100 (the standard\'s minimum); '
               'range clause for every n', 'Universal for L = 6, 7 (quick) '
               'and L = 6, 7 (thorough)',
               'random excursions: J read literally from 2.14.4 (the appended '
               'zero of S\' always counts)']
EXHAUSTIVE_SUBSPACES = ['all strings of length 1..12 (quick 10) for Frequency, '
                        'Runs, cusum range; all strings of length 8..11 for '
                        'Serial/ApproximateEntropy']
TOL = {'default': (1e-9, 1e-7), 'rank': (1e-7, 1e-5), 'lc': (1e-9, 1e-7)}


def plan(tier, seed):
  q = tier == 'quick'
  specs = [{'shard': 'exh-%d' % i, 'part': i, 'parts': 4,
            'maxlen': 10 if q else 12} for i in range(4)]
  for i in range(6 if q else 12):
    specs.append({'shard': 'mid-%d' % i, 'n': 25 if q else 150, 'weight': 3})
  for i in range(4 if q else 8):
    specs.append({'shard': 'thresholds-%d' % i, 'part': i,
                  'parts': 4 if q else 8, 'weight': 4})
  specs.append({'shard': 'big-0', 'sizes': [38912, 65536, 131072], 'weight': 6})
  specs.append({'shard': 'big-1', 'sizes': [387840, 750000], 'weight': 9})
  # Universal's block-size thresholds (L = 7 from 904960 bits, L = 8 from
  # 2068480 bits): F22 was invisible to a quick tier that stopped at L = 6
  specs.append({'shard': 'big-2', 'sizes': [904960] if q else
                [904960, 1048576], 'weight': 12})
  if not q:
    specs.append({'shard': 'big-3', 'sizes': [2068480], 'weight': 20})
  specs.append({'shard': 'walk', 'n': 12 if q else 60, 'weight': 4})
  specs.append({'shard': 'meta', 'n': 40 if q else 300, 'weight': 3})
  specs.append({'shard': 'tables'})
  return specs


def to_int(e):
  v = 0
  for i, b in enumerate(e):
    if b:
      v |= 1 << i
  return v


class Mon:
  """Comparison helper bound to a ctx."""

  def __init__(self, ctx):
    self.ctx = ctx

  def rng_check(self, test, name, p, data):
    """Range clause: p must be a real number in [0, 1] (1e-12 allowance)."""
    self.ctx.count('range_checks')
    try:
      pf = float(p)
    except Exception:  # pylint: disable=broad-except
      pf = float('nan')
    if not (pf == pf and -1e-12 <= pf <= 1 + 1e-12):
      mech = 'p-value-out-of-range@%s' % test
      if pf != pf:
        mech = 'p-value-nan@%s' % test
      self.ctx.violation(mech, '%s %s = %r is not in [0, 1]' % (test, name, p),
                         data)
      return False
    return True

  def cmp(self, test, name, got, want, data, tol='default'):
    self.ctx.count('evaluations')
    self.ctx.count('compared:' + test)
    if not self.rng_check(test, name, got, data):
      return
    a, r = TOL[tol]
    if isinstance(want, tuple):
      lo, hi = want
      ok = lo - a - r * lo <= got <= hi + a + r * hi
      want_s = '[%r, %r]' % (lo, hi)
    else:
      ok = abs(got - want) <= a + r * abs(want)
      want_s = repr(want)
    if not ok:
      self.ctx.violation('p-value-differs-from-sp800-22@%s' % test,
                         '%s %s = %r, SP 800-22 formula gives %s' % (
                             test, name, got, want_s), data)

  def call(self, test, f, *a, **kw):
    """Returns ('ok', value) | ('insufficient', None) | ('raised', None)."""
    from paranoid_crypto.lib.randomness_tests import nist_suite as ns
    try:
      return 'ok', f(*a, **kw)
    except ns.InsufficientDataError:
      return 'insufficient', None
    except Exception as e:  # pylint: disable=broad-except
      self.ctx.count('evaluations')
      self.ctx.violation('test-raised-%s@%s' % (type(e).__name__, test),
                         '%s raised %r' % (test, e),
                         {'test': test, 'args': [repr(x)[:200] for x in a]})
      return 'raised', None


def strings(rng, n):
  """Random, constant, alternating, periodic, single-flip, all-but-one,
  one-sided walk, walk ending at zero."""
  full = (1 << n) - 1
  out = [('random', rng.bits(n)), ('random', rng.bits(n))]
  k = rng.below(9)
  if k == 0:
    out.append(('alternating', int('10' * (n // 2 + 1), 2) & full))
  elif k == 1:
    per = rng.randint(2, 64)
    pat = rng.bits(per) | 1
    v = 0
    for i in range(0, n, per):
      v |= pat << i
    out.append(('periodic%d' % per, v & full))
  elif k == 2:
    out.append(('single-flip', rng.bits(n) & rng.bits(n) | 1 << rng.below(n)))
  elif k == 3:
    out.append(('biased', rng.bits(n) | rng.bits(n)))
  elif k == 4:
    # walk that never goes below zero: ones first
    h = n // 2
    out.append(('one-sided', ((1 << h) - 1) ^ (rng.bits(h // 2) << h) & full))
  elif k == 5:
    v = rng.bits(n - n % 2)
    # force the walk to end at zero: second half = complement of first half
    h = n // 2
    first = rng.bits(h)
    out.append(('ends-at-zero', first | ((~first & ((1 << h) - 1)) << h)))
  elif k == 6:
    out.append(('low-rank', _low_rank(rng, n)))
  elif k == 7:
    out.append(('extreme-block', rng.bits(n) | (((1 << min(n, 200)) - 1)
                                               << rng.below(max(1, n - 200)))))
  else:
    out.append(('all-but-one', full ^ (1 << rng.below(n))))
  return out


def _low_rank(rng, n):
  rows = [rng.bits(32) for _ in range(5)]
  v = 0
  for i in range(n // 32 + 1):
    r = 0
    for x in rows:
      if rng.chance(1, 2):
        r ^= x
    v |= r << (32 * i)
  return v & ((1 << n) - 1)


# ------------------------------------------------------------ per-test monitors

def mon_frequency(mon, ns, seq, n, e, data):
  st, p = mon.call('Frequency', ns.Frequency, seq, n)
  if st == 'ok':
    mon.cmp('Frequency', 'p', p, nist.frequency(e), data)


def mon_runs(mon, ns, seq, n, e, data):
  if seq in (0, (1 << n) - 1):
    return      # pi(1-pi) = 0: the formula of 2.3.4 is undefined
  st, p = mon.call('Runs', ns.Runs, seq, n)
  if st == 'ok':
    want, pre = nist.runs(e)
    if pre:
      mon.cmp('Runs', 'p', p, want, data)
    else:
      # frequency pre-test of 2.3.4 (2) fails: the standard assigns 0.0; the
      # code evaluates the erfc formula anyway - only the range is asserted
      mon.ctx.count('runs_pretest_failed')
      mon.rng_check('Runs', 'p', p, data)


def mon_blockfreq(mon, ns, u, seq, n, e, data):
  seen = {}
  orig = u.SplitSequence

  def spy(s, length, m):
    seen['m'] = m
    return orig(s, length, m)
  u.SplitSequence = spy
  try:
    st, p = mon.call('BlockFrequency', ns.BlockFrequency, seq, n)
  finally:
    u.SplitSequence = orig
  if n < 100:
    mon.ctx.count('evaluations')
    mon.ctx.count('insufficient_boundary_checks')
    if st != 'insufficient':
      mon.ctx.violation('insufficient-data-not-raised@BlockFrequency',
                        'n = %d < 100 accepted' % n, data)
    return
  if st == 'insufficient':
    mon.ctx.count('evaluations')
    mon.ctx.violation('insufficient-data-raised-above-minimum@BlockFrequency',
                      'n = %d' % n, data)
    return
  if st == 'ok':
    M = seen.get('m')
    if M is None or not nist.block_frequency_admissible(n, M):
      mon.ctx.violation('blockfrequency-inadmissible-block-size',
                        'n = %d, chosen M = %r violates M >= 20, M > n/100, '
                        'N < 100' % (n, M), data)
      return
    mon.cmp('BlockFrequency', 'p(M=%d)' % M, p, nist.block_frequency(e, M),
            data)


def mon_longestruns(mon, ns, seq, n, e, data):
  st, p = mon.call('LongestRuns', ns.LongestRuns, seq, n)
  mon.ctx.count('evaluations')
  if n < 128:
    mon.ctx.count('insufficient_boundary_checks')
    if st != 'insufficient':
      mon.ctx.violation('insufficient-data-not-raised@LongestRuns',
                        'n = %d < 128' % n, data)
    return
  if st == 'insufficient':
    mon.ctx.violation('insufficient-data-raised-above-minimum@LongestRuns',
                      'n = %d' % n, data)
  elif st == 'ok':
    mon.cmp('LongestRuns', 'p', p, nist.longest_runs(e), data)


def mon_rank(mon, ns, seq, n, e, data, r=32, c=32, k=3):
  st, p = mon.call('BinaryMatrixRank', ns.BinaryMatrixRank, seq, n, r, c, k)
  mon.ctx.count('evaluations')
  if n < 38 * r * c:
    mon.ctx.count('insufficient_boundary_checks')
    if st != 'insufficient':
      mon.ctx.violation('insufficient-data-not-raised@BinaryMatrixRank',
                        'n = %d < 38*%d*%d' % (n, r, c), data)
    return
  if st == 'insufficient':
    mon.ctx.violation('insufficient-data-raised-above-minimum@BinaryMatrixRank',
                      'n = %d' % n, data)
  elif st == 'ok':
    mon.cmp('BinaryMatrixRank', 'p(%dx%d,k=%d)' % (r, c, k), p,
            nist.matrix_rank_test(e, r, c, k), data, tol='rank')


def mon_spectral(mon, ns, seq, n, e, data):
  st, p = mon.call('Spectral', ns.Spectral, seq, n)
  if st == 'ok':
    if n % 2 == 0:
      mon.cmp('Spectral', 'p', p, nist.spectral(e), data)
    else:
      # 2.6.4 takes "the first n/2 peaks": undefined for odd n (the code uses
      # floor(n/2) peaks and 0.95*floor(n/2)); only the range is asserted
      mon.ctx.count('evaluations')
      mon.rng_check('Spectral', 'p', p, data)


def mon_nonoverlapping(mon, ns, seq, n, e, data, **kw):
  st, res = mon.call('NonOverlappingTemplateMatching',
                     ns.NonOverlappingTemplateMatching, seq, n, **kw)
  blocks = kw.get('blocks', 8)
  if n // blocks < 4 and 'm' not in kw:
    mon.ctx.count('evaluations')
    mon.ctx.count('insufficient_boundary_checks')
    if st != 'insufficient':
      mon.ctx.violation('insufficient-data-not-raised@NonOverlapping'
                        'TemplateMatching', 'block size %d' % (n // blocks),
                        data)
    return
  if st != 'ok':
    if st == 'insufficient':
      mon.ctx.violation('insufficient-data-raised-above-minimum@NonOverlapping'
                        'TemplateMatching', 'n = %d' % n, data)
    return
  names = [nm for nm, _ in res]
  m = len(names[0].split("'")[1])
  want_templates = kw.get('templates')
  allt = nist.aperiodic_templates(m)
  if want_templates is None:
    if len(res) != len(allt):
      mon.ctx.violation('nonoverlapping-template-set',
                        '%d templates of length %d reported, %d aperiodic '
                        'templates exist' % (len(res), m, len(allt)), data)
      return
    use = allt
  else:
    use = [tuple((t >> i) & 1 for i in range(m)) for t in want_templates]
  model = nist.non_overlapping(e[:(n // blocks) * blocks], blocks, m, use)
  for nm, p in res:
    printed = nm.split("'")[1]
    # the name prints the window value MSB first, i.e. the sequence-order
    # pattern reversed
    t = tuple(int(ch) for ch in printed[::-1])
    if t not in model:
      mon.ctx.violation('nonoverlapping-unknown-template', nm, data)
      continue
    mon.cmp('NonOverlappingTemplateMatching', nm, p, model[t], data)


def mon_overlapping(mon, ns, seq, n, e, data, **kw):
  m = kw.get('m') or 9
  M = kw.get('block_size') or 2 ** (m + 1) + m - 1
  if n // M < 1:
    return       # no block: statistic undefined
  st, p = mon.call('OverlappingTemplateMatching',
                   ns.OverlappingTemplateMatching, seq, n, **kw)
  if st == 'ok':
    mon.cmp('OverlappingTemplateMatching', 'p(m=%d,M=%d)' % (m, M), p,
            nist.overlapping(e, m, M), data)


def mon_universal(mon, ns, seq, n, e, data):
  st, p = mon.call('Universal', ns.Universal, seq, n)
  mon.ctx.count('evaluations')
  if n < 387840:
    mon.ctx.count('insufficient_boundary_checks')
    if st != 'insufficient':
      mon.ctx.violation('insufficient-data-not-raised@Universal', 'n = %d' % n,
                        data)
    return
  if st == 'insufficient':
    mon.ctx.violation('insufficient-data-raised-above-minimum@Universal',
                      'n = %d' % n, data)
  elif st == 'ok':
    mon.cmp('Universal', 'p', p, nist.universal(e), data)


def mon_universal_impl(mon, ns, seq, n, e, data, L, Q):
  st, p = mon.call('UniversalImpl', ns.UniversalImpl, seq, n, L, Q)
  if st == 'ok':
    mon.cmp('UniversalImpl', 'p(L=%d,Q=%d)' % (L, Q), p,
            nist.universal(e, L, Q), data)


def mon_lc(mon, ns, seq, n, e, data, M):
  st, res = mon.call('LinearComplexity', ns.LinearComplexity, seq, n, M)
  mon.ctx.count('evaluations')
  small = M < 10 or M * 200 > n
  if small:
    mon.ctx.count('insufficient_boundary_checks')
    if st != 'insufficient':
      mon.ctx.violation('insufficient-data-not-raised@LinearComplexity',
                        'n = %d, M = %d' % (n, M), data)
    return
  if st == 'insufficient':
    mon.ctx.violation('insufficient-data-raised-above-minimum@Linear'
                      'Complexity', 'n = %d M = %d' % (n, M), data)
  elif st == 'ok':
    d = dict(res)
    p1, p2, _ = nist.linear_complexity_test(e, M)
    mon.cmp('LinearComplexity', 'distribution(M=%d)' % M, d.get('distribution'),
            p1, data, tol='lc')
    mon.cmp('LinearComplexity', 'extreme values(M=%d)' % M,
            d.get('extreme values'), p2, data)


def mon_serial(mon, ns, seq, n, e, data, m_max=None):
  args = (seq, n) if m_max is None else (seq, n, m_max)
  st, res = mon.call('Serial', ns.Serial, *args)
  if st != 'ok':
    return
  ms = sorted({int(nm.split()[0][2:]) for nm, _ in res})
  top = max(ms)
  if m_max is None and not top < math.floor(math.log2(n)) - 2 and top > 2:
    mon.ctx.violation('serial-inadmissible-m', 'n = %d, m up to %d but the '
                      'standard requires m < floor(log2 n) - 2' % (n, top), data)
  if ms != list(range(2, top + 1)):
    mon.ctx.violation('serial-m-range', repr(ms), data)
  model = nist.serial(seq, n, top)
  for nm, p in res:
    m = int(nm.split()[0][2:])
    which = 0 if nm.endswith('p-value1') else 1
    d = dict(data, m=m)
    if which == 1 and model[m][2] <= 1e-9 * n:
      # second difference <= 0 (up to rounding): igamc(a, x<=0) = 1
      mon.ctx.count('serial_nonpositive_second_difference')
      mon.ctx.count('evaluations')
      if not mon.rng_check('Serial', nm, p, d):
        continue
      if model[m][2] < -1e-6 and abs(p - 1.0) > 1e-9:
        mon.ctx.violation('p-value-differs-from-sp800-22@Serial',
                          '%s = %r for a negative second difference; the '
                          'standard\'s igamc gives 1' % (nm, p), d)
      continue
    mon.cmp('Serial', nm, p, model[m][which], d)


def mon_apen(mon, ns, seq, n, e, data, m_max=None):
  args = (seq, n) if m_max is None else (seq, n, m_max)
  st, res = mon.call('ApproximateEntropy', ns.ApproximateEntropy, *args)
  if st != 'ok':
    return
  ms = [int(nm[2:]) for nm, _ in res]
  if m_max is None and max(ms) > 2 and not max(ms) < math.floor(
      math.log2(n)) - 5:
    mon.ctx.violation('apen-inadmissible-m', 'n = %d, m up to %d but the '
                      'standard requires m < floor(log2 n) - 5' % (n, max(ms)),
                      data)
  model = nist.approximate_entropy(seq, n, ms)
  for nm, p in res:
    mon.cmp('ApproximateEntropy', nm, p, model[int(nm[2:])], dict(data, m=nm))


def mon_walk(mon, ns, seq, n, e, data, formula=True):
  st, res = mon.call('RandomWalk', ns.RandomWalk, seq, n)
  if st != 'ok':
    return
  d = dict(res)
  pf, pr, zf, zr = nist.cusum(e)
  for nm, want, z in (('cumulative sums forward', pf, zf),
                      ('cumulative sums reverse', pr, zr)):
    if nm not in d:
      mon.ctx.violation('randomwalk-missing-p-value', nm, data)
      continue
    if formula and n >= 100:
      mon.cmp('CumulativeSums', nm, d[nm], want, dict(data, z=z))
    else:
      mon.ctx.count('evaluations')
      mon.rng_check('CumulativeSums', nm, d[nm], dict(data, z=z))
  J, pe, pv = nist.random_excursions(e)
  has = any(k.startswith('random excursions') for k in d)
  if J < 500:
    mon.ctx.count('evaluations')
    if has:
      mon.ctx.violation('random-excursions-with-too-few-cycles',
                        'J = %d < 500 but p-values were reported' % J, data)
    return
  mon.ctx.count('walks_with_500_cycles')
  if not has:
    mon.ctx.violation('random-excursions-missing', 'J = %d >= 500 but no '
                      'p-values' % J, data)
    return
  for x, want in pe.items():
    mon.cmp('RandomExcursions', 'x=%d' % x, d.get('random excursions %d' % x),
            want, dict(data, J=J))
  for x, want in pv.items():
    mon.cmp('RandomExcursionsVariant', 'x=%d' % x,
            d.get('random excursions variant %d' % x), want, dict(data, J=J))


# ------------------------------------------------------------------- shards

def run_exh(ctx, spec):
  from paranoid_crypto.lib.randomness_tests import nist_suite as ns
  mon = Mon(ctx)
  for n in range(1, spec['maxlen'] + 1):
    for seq in range(spec['part'], 1 << n, spec['parts']):
      if not ctx.want('%d/%d' % (n, seq)):
        continue
      e = nist.bits_of(seq, n)
      data = {'n': n, 'seq': seq}
      if 0 < seq < (1 << n) - 1:
        ctx.distinct(n, seq)
      mon_frequency(mon, ns, seq, n, e, data)
      mon_runs(mon, ns, seq, n, e, data)
      mon_walk(mon, ns, seq, n, e, data, formula=False)
      if 8 <= n <= 11:
        mon_serial(mon, ns, seq, n, e, data)
        mon_apen(mon, ns, seq, n, e, data)
  ctx.sample({'mode': 'exhaustive', 'lengths': '1..%d' % spec['maxlen'],
              'tests': 'Frequency, Runs, cusum range, Serial, ApEn'})


def run_mid(ctx, spec):
  """Strings of 100..20000 bits through every test that accepts them."""
  from paranoid_crypto.lib.randomness_tests import nist_suite as ns
  from paranoid_crypto.lib.randomness_tests import util as u
  rng = ctx.rng('mid')
  mon = Mon(ctx)
  for i in range(spec['n']):
    n = rng.choice([100, 101, 127, 128, 129, 200, 256, 1000, 1032, 2064, 4096,
                    6271, 6272, 6273, 10000, rng.randint(100, 20000)])
    for tag, seq in strings(rng, n):
      if not ctx.want('%d/%s' % (i, tag)):
        continue
      seq &= (1 << n) - 1
      e = nist.bits_of(seq, n)
      data = {'n': n, 'seq': seq if n <= 4096 else None, 'kind': tag}
      if 0 < seq < (1 << n) - 1:
        ctx.distinct(n, seq)
      ctx.count('kind:' + tag.rstrip('0123456789'))
      mon_frequency(mon, ns, seq, n, e, data)
      mon_runs(mon, ns, seq, n, e, data)
      mon_blockfreq(mon, ns, u, seq, n, e, data)
      mon_longestruns(mon, ns, seq, n, e, data)
      mon_spectral(mon, ns, seq, n, e, data)
      mon_walk(mon, ns, seq, n, e, data)
      mon_serial(mon, ns, seq, n, e, data, None if i % 2 else rng.choice(
          [2, 3, 5]))
      mon_apen(mon, ns, seq, n, e, data, None if i % 2 else rng.choice(
          [2, 3, 4]))
      mon_overlapping(mon, ns, seq, n, e, data, **(
          {} if i % 3 else {'m': rng.choice([2, 4, 6]),
                            'block_size': rng.choice([64, 100, 257])}))
      if n <= 4200:
        mon_nonoverlapping(mon, ns, seq, n, e, data, **(
            {} if i % 3 else {'blocks': rng.choice([2, 4, 8]), 'm': 3,
                              'templates': [1, 3, 4]}))
      # small explicit shapes for the rank test / UniversalImpl / LC
      r, c, k = rng.choice([(4, 4, 2), (6, 8, 3), (6, 6, 3), (3, 3, 1),
                            (5, 5, 3)])
      if n >= 38 * r * c:
        mon_rank(mon, ns, seq, n, e, data, r, c, k)
      if n >= 2000:
        L = rng.choice([2, 3, 4])
        mon_universal_impl(mon, ns, seq, n, e, data, L, 10 * 2 ** L)
        # short initialisation segments: patterns whose first occurrence lies
        # in the test segment (the table entry 'never seen' of 2.9.4 step 2)
        L = rng.choice([3, 4, 5, 6])
        mon_universal_impl(mon, ns, seq, n, e, data, L,
                           rng.choice([1, 2, 2 ** L // 2, 2 ** L]))
        mon.ctx.count('universal_short_init_segment')
      M = rng.choice([10, 11, 16, 25, 31])
      if M * 200 <= n:
        mon_lc(mon, ns, seq, n, e, data, M)
  try:
    ctx.sample({'n': n, 'kind': tag, 'tests': 'all accepting this length'})
  except NameError:
    pass


def run_thresholds(ctx, spec):
  """Lengths at every parameter ladder threshold +-1."""
  from paranoid_crypto.lib.randomness_tests import nist_suite as ns
  from paranoid_crypto.lib.randomness_tests import util as u
  rng = ctx.rng('thr')
  mon = Mon(ctx)
  lens = []
  for base in [100, 128, 6272] + [8 * b for b in (4, 64, 256, 1024, 2048,
                                                  4096, 8192)] + [
                                                      1600, 3200, 6400, 12800,
                                                      2 ** 12, 2 ** 14, 2 ** 16]:
    lens += [base - 1, base, base + 1]
  lens = [n for i, n in enumerate(sorted(set(lens))) if i % spec['parts'] ==
          spec['part']]
  for n in lens:
    for tag, seq in strings(rng, n)[:2]:
      if not ctx.want('%d/%s' % (n, tag)):
        continue
      seq &= (1 << n) - 1
      e = nist.bits_of(seq, n)
      data = {'n': n, 'kind': tag, 'seq': seq if n <= 4096 else None}
      ctx.distinct(n, seq)
      mon_blockfreq(mon, ns, u, seq, n, e, data)
      mon_longestruns(mon, ns, seq, n, e, data)
      if n <= 20000:
        mon_nonoverlapping(mon, ns, seq, n, e, data)
      mon_serial(mon, ns, seq, n, e, data)
      mon_apen(mon, ns, seq, n, e, data)
      mon_universal(mon, ns, seq, n, e, data)
      mon_rank(mon, ns, seq, n, e, data)
      for M in (9, 10, n // 200, n // 200 + 1):
        if M > 0:
          mon_lc(mon, ns, seq, n, e, data, M)
  # explicit insufficient-data boundaries of the small-shape rank test
  for (r, c) in ((4, 4), (3, 5)):
    for n in (38 * r * c - 1, 38 * r * c):
      seq = rng.bits(n)
      mon_rank(mon, ns, seq, n, nist.bits_of(seq, n), {'n': n}, r, c, 2)
  for n in (31, 32, 33):   # NonOverlapping: block size 4 is the minimum
    seq = rng.bits(n)
    mon_nonoverlapping(mon, ns, seq, n, nist.bits_of(seq, n), {'n': n})
  try:
    ctx.sample({'threshold_lengths': lens[:12]})
  except NameError:
    pass


def run_big(ctx, spec):
  from paranoid_crypto.lib.randomness_tests import nist_suite as ns
  from paranoid_crypto.lib.randomness_tests import util as u
  rng = ctx.rng('big')
  mon = Mon(ctx)
  for n in spec['sizes']:
    for d in (-1, 0):
      nn = n + d
      if not ctx.want('n%d' % nn):
        continue
      seq = rng.bits(nn)
      e = nist.bits_of(seq, nn)
      data = {'n': nn, 'kind': 'random'}
      ctx.distinct(nn, seq & 0xffffffff)
      mon_blockfreq(mon, ns, u, seq, nn, e, data)
      mon_longestruns(mon, ns, seq, nn, e, data)
      mon_rank(mon, ns, seq, nn, e, data)
      if d == 0 and nn <= 140000:
        # non-square shapes with both dimensions beyond 30
        for (r, c) in ((32, 33), (32, 40), (31, 64)):
          if nn >= 38 * r * c:
            mon_rank(mon, ns, seq, nn, e, data, r, c, 3)
            mon.ctx.count('large_nonsquare_rank_shapes')
      mon_universal(mon, ns, seq, nn, e, data)
      if d == 0 and nn >= 387840:
        # a constant initialisation segment followed by random blocks: 63 (or
        # 2^L - 1) patterns occur for the first time in the test segment
        L = 6 if nn < 904960 else 7 if nn < 2068480 else 8
        cut = 10 * 2 ** L * L + rng.randint(0, 3 * L)
        seq2 = seq >> cut << cut
        mon_universal(mon, ns, seq2, nn, nist.bits_of(seq2, nn),
                      {'n': nn, 'kind': 'zero-prefix-%d' % cut})
        mon.ctx.count('universal_constant_init_segment')
      if d == 0:
        mon_frequency(mon, ns, seq, nn, e, data)
        mon_runs(mon, ns, seq, nn, e, data)
        mon_overlapping(mon, ns, seq, nn, e, data)
        mon_walk(mon, ns, seq, nn, e, data)
        if nn <= 140000:
          mon_spectral(mon, ns, seq, nn, e, data)
          mon_lc(mon, ns, seq, nn, e, data, rng.choice([500, 512]))
          mon_serial(mon, ns, seq, nn, e, data)
          mon_apen(mon, ns, seq, nn, e, data)
          mon_nonoverlapping(mon, ns, seq, nn, e, data)
  ctx.sample({'sizes': spec['sizes']})


def run_walk(ctx, spec):
  """Walks with >= 500 cycles (oscillating), ending at zero or not."""
  from paranoid_crypto.lib.randomness_tests import nist_suite as ns
  rng = ctx.rng('walk')
  mon = Mon(ctx)
  for i in range(spec['n']):
    if not ctx.want('w%d' % i):
      continue
    # concatenation of short balanced excursions
    e = []
    for _ in range(rng.randint(500, 900)):
      h = rng.choice([1, 1, 2, 3, 5, 9, 12])
      up = rng.chance(1, 2)
      seg = [1] * h + [0] * h
      if rng.chance(1, 3) and h > 1:
        seg = [1] * (h - 1) + [0, 1] + [0] * (h - 1)
      e += seg if up else [1 - b for b in seg]
    if i % 2:
      e += [rng.below(2) for _ in range(rng.randint(1, 9))]
    n = len(e)
    seq = to_int(e)
    ctx.distinct('walk', seq)
    mon_walk(mon, ns, seq, n, e, {'n': n, 'kind': 'oscillating', 'seq': seq})
  for cycles in (499, 500, 501, 500):        # the J >= 500 boundary
    e = []
    for c in range(cycles - 1):
      h = rng.choice([1, 2, 3])
      seg = [1] * h + [0] * h
      e += seg if rng.chance(1, 2) else [1 - b for b in seg]
    e += [1, 1, 0]     # last, unfinished cycle: J = cycles
    J, _, _ = nist.random_excursions(e)
    ctx.count('boundary_walks_J%d' % J)
    mon_walk(mon, ns, to_int(e), len(e), e, {'n': len(e), 'kind':
                                             'J=%d' % J, 'seq': to_int(e)})
  for n in (257, 1001, 10007, 600, 1200):   # alternating strings
    e = [(j + 1) % 2 for j in range(n)]
    mon_walk(mon, ns, to_int(e), n, e, {'n': n, 'kind': 'alternating'})
  ctx.sample({'walk': 'concatenated excursions', 'n': n})


def run_meta(ctx, spec):
  """Statistic-preserving transformations must not change the p-value."""
  from paranoid_crypto.lib.randomness_tests import nist_suite as ns
  rng = ctx.rng('meta')

  def same(test, tr, a, b, data):
    ctx.count('evaluations')
    ctx.count('metamorphic:' + tr)
    la = a if isinstance(a, list) else [('p', a)]
    lb = b if isinstance(b, list) else [('p', b)]
    for (na, pa), (nb, pb) in zip(la, lb):
      if pa != pa or pb != pb or abs(pa - pb) > 1e-9 + 1e-6 * abs(pa):
        ctx.violation('p-value-changes-under-%s@%s' % (tr, test),
                      '%s %s: %r vs %r after %s' % (test, na, pa, pb, tr), data)
        return

  for i in range(spec['n']):
    if not ctx.want('m%d' % i):
      continue
    n = rng.choice([128, 256, 1000, 4096, rng.randint(128, 6000)])
    tag, seq = rng.choice(strings(rng, n))
    seq &= (1 << n) - 1
    full = (1 << n) - 1
    comp = seq ^ full
    rev = int(format(seq, '0%db' % n)[::-1], 2)
    rot_k = rng.randint(1, n - 1)
    rot = ((seq >> rot_k) | (seq << (n - rot_k))) & full
    data = {'n': n, 'kind': tag, 'seq': seq if n <= 4096 else None}
    ctx.distinct('meta', n, seq)

    def run(f, s, *a):
      try:
        return f(s, n, *a)
      except Exception:  # pylint: disable=broad-except
        return None
    for test, f, trs in (
        ('Frequency', ns.Frequency, ('complement', 'reverse', 'rotate')),
        ('BlockFrequency', ns.BlockFrequency, ('complement',)),
        ('Runs', ns.Runs, ('complement', 'reverse')),
        ('Serial', ns.Serial, ('complement', 'reverse', 'rotate')),
        ('ApproximateEntropy', ns.ApproximateEntropy, ('complement', 'reverse',
                                                       'rotate')),
        ('Spectral', ns.Spectral, ('complement',)),
        ('BinaryMatrixRank', lambda s, nn: ns.BinaryMatrixRank(
            s, nn, 4, 4, 2, False), ('complement',))):
      base = run(f, seq)
      if base is None:
        continue
      for tr in trs:
        if test == 'BinaryMatrixRank' and tr == 'complement':
          continue   # the rank is not complement-invariant
        other = run(f, {'complement': comp, 'reverse': rev, 'rotate': rot}[tr])
        if other is not None:
          same(test, tr, base, other, data)
    # cusum: reversing the string swaps forward and reverse; complementing
    # keeps both
    w = run(ns.RandomWalk, seq)
    wr = run(ns.RandomWalk, rev)
    wc = run(ns.RandomWalk, comp)
    if w and wr and wc:
      d, dr, dc = dict(w), dict(wr), dict(wc)
      same('CumulativeSums', 'reverse(forward<->reverse)',
           [('fwd', d['cumulative sums forward']),
            ('rev', d['cumulative sums reverse'])],
           [('fwd', dr['cumulative sums reverse']),
            ('rev', dr['cumulative sums forward'])], data)
      same('CumulativeSums', 'complement',
           [('fwd', d['cumulative sums forward']),
            ('rev', d['cumulative sums reverse'])],
           [('fwd', dc['cumulative sums forward']),
            ('rev', dc['cumulative sums reverse'])], data)
  ctx.sample({'metamorphic': 'complement/reverse/rotate', 'n': n})


def run_tables(ctx, spec):
  """Embedded probability tables vs exactly derived distributions, read as
  "differs by less than one unit of the last printed digit"."""
  import inspect
  import re
  from paranoid_crypto.lib.randomness_tests import extended_nist_suite as en
  from paranoid_crypto.lib.randomness_tests import nist_suite as ns

  def digits_ok(lit, exact):
    s = repr(lit) if 'e' not in repr(lit) else '%.*e' % (len(repr(lit).split(
        'e')[0].replace('.', '').lstrip('-')) - 1, lit)
    if 'e' in s:
      mant, ex = s.split('e')
      unit = 10.0 ** (int(ex) - len(mant.split('.')[1] if '.' in mant else ''))
    else:
      unit = 10.0 ** (-len(s.split('.')[1])) if '.' in s else 1.0
    return abs(lit - float(exact)) < unit * (1 + 1e-9)

  def table(name, lits, exact, mech=None):
    for i, (l, x) in enumerate(zip(lits, exact)):
      ctx.count('evaluations')
      ctx.count('table_entries')
      ctx.distinct(name, i)
      if not digits_ok(l, x):
        ctx.violation(mech or 'table-entry-differs@%s' % name,
                      '%s[%d] = %r, exact value %.10g' % (name, i, l, float(x)),
                      {'table': name, 'index': i})
  # longest-run tables are literals inside LongestRuns: read them from source
  src = inspect.getsource(ns.LongestRuns)
  rows = re.findall(r'\[\s*(\d+),\s*(\d+),\s*(\d+),\s*(\d+),\s*\[([^\]]+)\]', src)
  if len(rows) != 3:
    ctx.violation('table-not-found@LongestRuns', 'cannot locate the parameter '
                  'sets in the source', None)
  for mn, M, lo, hi, lits in rows:
    lits = [float(x) for x in lits.replace('\n', ' ').split(',') if x.strip()]
    exact = nist.longest_run_exact_distribution(int(M), int(lo), int(hi))
    table('LongestRuns(M=%s)' % M, lits, exact,
          mech='longest-run-M10000-published-values' if int(M) == 10000
          else None)
    ctx.count('evaluations')
    if (int(mn), int(M), int(lo), int(hi)) not in [p[:4] for p in
                                                    nist.LONGEST_RUN_PARAMS]:
      ctx.violation('longest-run-parameter-set', '%r' % ((mn, M, lo, hi),), None)
  # asymptotic rank distribution (n -> infinity)
  def rank_asym(k):
    p = Fraction(1)
    for i in range(1, 400):
      p *= 1 - Fraction(1, 2 ** i)
    pk = p * Fraction(1, 2 ** (k * k))
    for i in range(1, k + 1):
      pk /= (1 - Fraction(1, 2 ** i)) ** 2
    return pk
  exact = [rank_asym(k) for k in range(40)]
  lits = ns.RankDistribution(32, 32, 5)
  table('RankDistribution(precomputed)', lits[:5], exact[:5])
  sf = [sum(exact[k:]) for k in range(len(en.ASYMPTOTIC_RANK_SF))]
  table('ASYMPTOTIC_RANK_SF', en.ASYMPTOTIC_RANK_SF, sf)
  # exact small-matrix distribution vs the product formula
  for (r, c, k) in ((3, 3, 2), (6, 8, 3), (32, 32, 3), (5, 5, 5)):
    got = ns.RankDistribution(r, c, k, allow_approximation=False)
    want = [nist.rank_probability(r - j, r, c) for j in range(k)]
    want.append(1 - sum(want))
    for i, (g, w) in enumerate(zip(got, want)):
      ctx.count('evaluations')
      ctx.count('table_entries')
      if abs(g - float(w)) > 1e-12 + 1e-9 * float(w):
        ctx.violation('rank-distribution-differs', 'RankDistribution(%d,%d,%d)'
                      '[%d] = %r, exact %r' % (r, c, k, i, g, float(w)), None)
  # the default call (approximations allowed) for shapes around the size
  # where precomputed square-matrix values take over
  for (r, c, k) in ((32, 33, 3), (32, 40, 3), (31, 64, 2), (40, 48, 3),
                    (31, 31, 3), (33, 33, 5), (30, 30, 3), (31, 32, 3),
                    (64, 64, 2), (6, 8, 3)):
    got = ns.RankDistribution(r, c, k)
    want = [nist.rank_probability(r - j, r, c) for j in range(k)]
    want.append(1 - sum(want))
    for i, (g, w) in enumerate(zip(got, want)):
      ctx.count('evaluations')
      ctx.count('table_entries')
      ctx.count('rank_distribution_default_calls')
      if abs(g - float(w)) > 2e-8:
        ctx.violation('rank-distribution-differs', 'RankDistribution(%d,%d,%d)'
                      '[%d] = %r, exact %r' % (r, c, k, i, g, float(w)), None)
  # Universal: expected value and variance (Maurer's series)
  src = inspect.getsource(ns.UniversalDistribution)
  for L, ev, var in re.findall(r'(\d+):\s*\(([\d.]+),\s*([\d.]+)\)', src):
    L = int(L)
    if L > 10:
      continue
    xe, xv = nist.universal_exact_expectation(L)
    table('Universal expected value', [float(ev)], [xe])
    table('Universal variance', [float(var)], [xv])
  # random excursion probabilities (closed form in the code)
  for x in (1, 2, 3, 4, -2, 7):
    got = ns.RandomExcursionsDistribution(x)
    for k in range(6):
      ctx.count('evaluations')
      ctx.count('table_entries')
      if abs(got[k] - float(nist.excursion_pi(x, k))) > 1e-12:
        ctx.violation('excursion-distribution-differs', 'pi_%d(%d) = %r' % (
            k, x, got[k]), None)
  # overlapping template distribution: exact DP vs the code's matrix power
  for (M, m) in ((1032, 9), (64, 2), (100, 4)):
    got = ns.OverlappingTemplateMatchingDistribution(M, m, 5)
    want = nist.overlapping_distribution(M, m, 5)
    for i, (g, w) in enumerate(zip(got, want)):
      ctx.count('evaluations')
      ctx.count('table_entries')
      if abs(g - float(w)) > 1e-9:
        ctx.violation('overlapping-distribution-differs', 'M=%d m=%d class %d: '
                      '%r vs exact %r' % (M, m, i, g, float(w)), None)
  ctx.sample({'tables': ['LongestRuns x3', 'rank asymptotic', 'rank survival',
                         'Universal', 'excursions', 'overlapping']})


NIST_FUNCS = ['Frequency', 'BlockFrequency', 'Runs', 'LongestRuns',
              'BinaryMatrixRank', 'Spectral', 'NonOverlappingTemplateMatching',
              'OverlappingTemplateMatching', 'UniversalImpl',
              'LinearComplexity', 'Serial', 'ApproximateEntropy', 'RandomWalk',
              'CumulativeSumsPValue', 'RankDistribution',
              'OverlappingTemplateMatchingDistribution',
              'RandomExcursionsDistribution', 'ChiSquare']


def run(ctx, spec):
  from paranoid_crypto.lib.randomness_tests import nist_suite as ns
  from vp import contracts
  pm = contracts.PurityMonitor(ctx, keep=60)
  if spec['shard'].startswith(('mid', 'thresholds', 'walk', 'meta')):
    for f in NIST_FUNCS:
      pm.wrap(ns, f)
  try:
    _run(ctx, spec)
    pm.recheck()
  finally:
    pm.restore()


def _run(ctx, spec):
  s = spec['shard']
  for prefix, fn in (('exh', run_exh), ('mid', run_mid),
                     ('thresholds', run_thresholds), ('big', run_big),
                     ('walk', run_walk), ('meta', run_meta),
                     ('tables', run_tables)):
    if s.startswith(prefix):
      return fn(ctx, spec)


def finalize(agg, tier):
  c = agg['counters']
  need = ['compared:' + t for t in (
      'Frequency', 'Runs', 'BlockFrequency', 'LongestRuns', 'BinaryMatrixRank',
      'Spectral', 'NonOverlappingTemplateMatching',
      'OverlappingTemplateMatching', 'Universal', 'UniversalImpl',
      'LinearComplexity', 'Serial', 'ApproximateEntropy', 'CumulativeSums',
      'RandomExcursions', 'RandomExcursionsVariant')]
  need += ['rank_distribution_default_calls', 'large_nonsquare_rank_shapes',
           'universal_short_init_segment', 'universal_constant_init_segment',
           'range_checks', 'insufficient_boundary_checks', 'table_entries',
           'walks_with_500_cycles', 'boundary_walks_J500',
           'boundary_walks_J499', 'metamorphic:complement',
           'metamorphic:reverse', 'metamorphic:rotate']
  return [], ['reach counter %s is zero' % k for k in need if not c.get(k)]
