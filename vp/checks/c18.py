"""C18 - checks are total on well-formed batches.  Boundary observer: every
entry point and every individual check class is called on grammar-generated
hostile-but-well-formed batches; an escaping exception or a non-bool return
is the refuting event."""
from vp import gen
from vp import workloads

ID = 'C18'
RULE = ('one evaluation = one call of an entry point or of one check class on '
        'one batch; distinct by (callee, batch digest); non-trivial = the '
        'batch contains at least one special case (size 0, degenerate '
        'modulus, hostile coordinate, duplicate, unknown curve, ...)')
ASSUMPTIONS = ['well-formed = RSA moduli >= 2^63, r and s in [1, n-1]; '
               'r or s == 0 (mod n) is outside the quantifier',
               'a hang is a watchdog event (inconclusive), not a violation',
               'CheckECKeySmallDifference runs with max_diff = 2^8 (its '
               'documented constructor parameter)']
EXHAUSTIVE_SUBSPACES = ['batch sizes 0, 1, 2, 3 for every check class and '
                        'entry point']


def plan(tier, seed):
  q = tier == 'quick'
  specs = [{'shard': 'rsa-%d' % i, 'n': 10 if q else 120, 'weight': 3}
           for i in range(5)]
  specs += [{'shard': 'ec-%d' % i, 'n': 14 if q else 110, 'weight': 5,
             'timeout': 1500 if q else 3000} for i in range(6)]
  specs += [{'shard': 'ecdsa-%d' % i, 'n': 6 if q else 60, 'weight': 6}
            for i in range(6)]
  return specs


def _call(ctx, fn, name, arts, descs, family):
  ctx.count('evaluations')
  ctx.count('calls:' + family)
  ctx.count('size:%s' % (len(arts) if len(arts) <= 3 else '4+'))
  ctx.distinct(name, tuple(descs))
  try:
    ret = fn(arts)
  except Exception as e:  # pylint: disable=broad-except
    import traceback
    tb = traceback.extract_tb(e.__traceback__)
    where = next((f.name for f in reversed(tb) if '/paranoid_crypto/' in
                  f.filename), '?')
    ctx.violation('%s-in-%s@%s' % (type(e).__name__, where, name),
                  '%s raised %r on a batch of %d (%s)' % (
                      name, e, len(arts), ', '.join(sorted(set(descs)))[:300]),
                  {'callee': name, 'descs': descs,
                   'artifacts': [a.SerializeToString() for a in arts][:60]})
    return
  if type(ret) is not bool:
    ctx.violation('non-bool-return@%s' % name, '%s returned %r (%s)' % (
        name, ret, type(ret).__name__), {'callee': name, 'descs': descs})


def _copies(arts):
  out = []
  for a in arts:
    b = type(a)()
    b.CopyFrom(a)
    out.append(b)
  return out


def run_rsa(ctx, spec):
  from paranoid_crypto.lib import paranoid
  rng = ctx.rng('rsa')
  checks = dict(paranoid.GetRSAAllChecks())
  for b in range(spec['n']):
    if ctx.spent():
      break
    if not ctx.want('b%d' % b):
      continue
    size = [0, 1, 2, 3][b] if b < 4 else rng.choice([1, 2, 3, 8, 50 if ctx.tier
                                                     != 'quick' else 12])
    arts = workloads.rsa_mixed_batch(rng, size, slow_budget=1 if b % 3 == 0
                                     else 0) if size else []
    arts = arts[:max(size, 0)] if size <= 3 else arts
    for a in arts:
      if rng.chance(1, 3):
        a['e'] = rng.choice([0, 1, 3, 65537, 2 ** 70 + 1, 65536])
    if b == 6:
      # moduli next to a power of two, one per bit length (and residue of the
      # length modulo 3: cube-root scaling), all shards share the work
      Ls = [1023, 1024, 1025, 1026, 1027, 2047, 2048, 3072, 4096, 768]
      sh = int(spec['shard'].rsplit('-', 1)[1])
      arts = [workloads.rsa_artifact(rng, '%s:%d' % (k, L))
              for k in ('topones', 'topzeros') for L in Ls[sh::5]]
      ctx.count('power_of_two_neighbour_moduli', len(arts))
    if arts and (b == 5 or (b > 5 and rng.chance(1, 6))):
      # nothing but duplicates of one modulus
      arts = [dict(rng.choice(arts)) for _ in range(rng.choice([2, 3, 7]))]
      ctx.count('all_identical_batches')
    keys = workloads.rsa_keys(arts, pad=rng.choice([0, 0, 3]))
    descs = [a['kind'] for a in arts]
    _call(ctx, paranoid.CheckAllRSA, 'CheckAllRSA', _copies(keys), descs, 'rsa')
    for name, chk in checks.items():
      _call(ctx, chk.Check, name, _copies(keys), descs, 'rsa')
    ctx.sample({'family': 'rsa', 'kinds': descs[:10]})


def run_ec(ctx, spec):
  from paranoid_crypto.lib import paranoid
  workloads.install_small_maxdiff(2 ** 8)
  rng = ctx.rng('ec')
  checks = dict(paranoid.GetECAllChecks())
  # each shard concentrates on a few curves (the 2^32 table is per curve)
  curves = rng.sample(gen.NAMED, 3)
  for b in range(spec['n']):
    if ctx.spent():
      break
    if not ctx.want('b%d' % b):
      continue
    size = [0, 1, 2, 3][b] if b < 4 else rng.choice([1, 2, 3, 4, 6, 10, 50 if
                                                     b % 9 == 0 else 5])
    keys, descs = workloads.ec_hostile_batch(rng, size, curves) if size else \
        ([], [])
    keys, descs = keys[:size] if size <= 3 else keys, descs[:size] if \
        size <= 3 else descs
    if keys and (b == 5 or (b > 5 and rng.chance(1, 6))):
      j = rng.below(len(keys))
      m = rng.choice([2, 3, 7])
      keys, descs = [keys[j]] * m, [descs[j] + ':identical'] * m
      ctx.count('all_identical_batches')
    _call(ctx, paranoid.CheckAllEC, 'CheckAllEC', _copies(keys), descs, 'ec')
    for name, chk in checks.items():
      _call(ctx, chk.Check, name, _copies(keys), descs, 'ec')
    ctx.sample({'family': 'ec', 'kinds': descs[:10]})


def run_ecdsa(ctx, spec):
  from paranoid_crypto.lib import paranoid
  workloads.install_small_maxdiff(2 ** 8)
  rng = ctx.rng('ecdsa')
  checks = dict(paranoid.GetECDSAAllChecks())
  for b in range(spec['n']):
    if ctx.spent():
      break
    if not ctx.want('b%d' % b):
      continue
    size = [0, 1, 2, 3][b] if b < 4 else rng.choice([1, 2, 3, 5, 9, 16])
    sg, descs = workloads.ecdsa_hostile_batch(rng, size) if size else ([], [])
    sg, descs = (sg[:size], descs[:size]) if size <= 3 else (sg, descs)
    if b == 4:
      # one issuer with exactly 24 / 48 distinct signatures (the sizes of the
      # lattice windows), with and without duplicates, next to 23 and 25
      from vp import sigs as vsigs
      c = rng.choice(['CURVE_SECP256R1', 'CURVE_SECP256K1', 'CURVE_SECP224R1'])
      n = gen.model_curve(c).n
      cnt = rng.choice([24, 24, 48, 23, 25])
      d, pub = vsigs.issuer(rng, c)
      sg = vsigs.sign_many(rng, c, d, pub, vsigs.nonces_uniform(rng, n, cnt))
      descs = ['%s:issuer-with-%d' % (c, cnt)] * len(sg)
      for _ in range(rng.choice([0, 3])):
        dup = type(sg[0])()
        dup.CopyFrom(rng.choice(sg))
        sg.append(dup)
        descs.append('%s:dup' % c)
      ctx.count('window_sized_issuers')
    if sg and (b == 5 or (b > 5 and rng.chance(1, 6))):
      j = rng.below(len(sg))
      m = rng.choice([2, 3, 7, 24])
      sg, descs = [sg[j]] * m, [descs[j] + ':identical'] * m
      ctx.count('all_identical_batches')
    _call(ctx, paranoid.CheckAllECDSASigs, 'CheckAllECDSASigs', _copies(sg),
          descs, 'ecdsa')
    for name, chk in checks.items():
      _call(ctx, chk.Check, name, _copies(sg), descs, 'ecdsa')
    ctx.sample({'family': 'ecdsa', 'kinds': descs[:10]})


def run(ctx, spec):
  s = spec['shard']
  if s.startswith('rsa'):
    run_rsa(ctx, spec)
  elif s.startswith('ecdsa'):
    run_ecdsa(ctx, spec)
  else:
    run_ec(ctx, spec)


def finalize(agg, tier):
  c = agg['counters']
  need = ['calls:rsa', 'calls:ec', 'calls:ecdsa', 'window_sized_issuers',
          'all_identical_batches', 'power_of_two_neighbour_moduli',
          'size:0', 'size:1', 'size:2',
          'size:3', 'size:4+']
  return [], ['reach counter %s is zero' % k for k in need if not c.get(k)]
