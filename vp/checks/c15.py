"""C15 - bit-sequence primitives match their definitions.  Reference-model
monitor (definitions on Python strings) + differential fast/slow paths."""
import itertools

from vp.models import bits as mb

ID = 'C15'
RULE = ('one evaluation = one call of a public primitive of '
        'randomness_tests/util.py compared with its definition on strings; '
        'distinct by (primitive, string, parameters); non-trivial = string is '
        'neither all-zero nor all-one')
ASSUMPTIONS = ['definitions are evaluated on Python str/list objects',
               'FrequencyCount with m >= 23 on > 4*10^8 bits (the m < 24 guard)'
               ' is not executed: too large for the sandbox']
EXHAUSTIVE_SUBSPACES = ['all bit strings of length <= 16 (quick 11) x all m <= '
                        'length, wrap and no-wrap, all block sizes and scatter '
                        'widths', 'all binary matrices up to 4x4, 3x5, 5x3']
NSH = 16


def plan(tier, seed):
  q = tier == 'quick'
  specs = [{'shard': 'exh-%d' % i, 'part': i, 'maxlen': 11 if q else 16,
            'weight': 4} for i in range(NSH)]
  specs += [{'shard': 'freq-%d' % i, 'part': i, 'n': 3 if q else 12,
             'mmax': 8 if q else 10, 'weight': 3} for i in range(8)]
  specs += [{'shard': 'prims-%d' % i, 'n': 250 if q else 2500}
            for i in range(4)]
  specs += [{'shard': 'rank-small'},
            {'shard': 'rank-rand-0', 'n': 60 if q else 400, 'big': not q},
            {'shard': 'rank-rand-1', 'n': 60 if q else 400, 'big': False}]
  return specs


def cmpv(ctx, name, got, want, args):
  ctx.count('evaluations')
  ctx.count('fn:' + name)
  if got != want:
    ctx.violation('%s-differs-from-definition' % name,
                  '%s%r = %r, definition %r' % (
                      name, args, got if len(repr(got)) < 200 else '...',
                      want if len(repr(want)) < 200 else '...'),
                  {'fn': name, 'args': args})


def call(ctx, name, f, *a, **kw):
  try:
    r = f(*a, **kw)
    return list(r) if name == 'SubSequences' else r
  except Exception as e:  # pylint: disable=broad-except
    ctx.count('evaluations')
    ctx.violation('%s-raised-%s' % (name, type(e).__name__),
                  '%s%r raised %r' % (name, a, e), {'fn': name, 'args': a})
    return 'RAISED'


def all_prims(ctx, u, seq, length, ms, blocks, widths):
  """Every primitive on one string."""
  nontrivial = 0 < seq < (1 << length) - 1
  if nontrivial:
    ctx.distinct(seq, length)
  for m in ms:
    for wrap in (True, False):
      w = mb.windows(seq, length, m, wrap)
      got = call(ctx, 'SubSequences', u.SubSequences, seq, length, m, wrap)
      if got != 'RAISED':
        cmpv(ctx, 'SubSequences', sorted(int(v) for v in got), sorted(w),
             (seq, length, m, wrap))
      got = call(ctx, 'FrequencyCount', u.FrequencyCount, seq, length, m, wrap)
      if got != 'RAISED':
        if 50 * 2 ** m < length and m < 24:
          ctx.count('freq_fast_path')
        else:
          ctx.count('freq_slow_path')
        if length % 8:
          ctx.count('freq_tail_bits')
        want = [0] * 2 ** m
        for v in w:
          want[v] += 1
        cmpv(ctx, 'FrequencyCount', [int(v) for v in got], want,
             (seq, length, m, wrap))
  for m in blocks:
    got = call(ctx, 'SplitSequence', u.SplitSequence, seq, length, m)
    if got != 'RAISED':
      cmpv(ctx, 'SplitSequence', [int(v) for v in got],
           mb.split_sequence(seq, length, m), (seq, length, m))
  for m in widths:
    got = call(ctx, 'Scatter', u.Scatter, seq, m)
    if got != 'RAISED':
      cmpv(ctx, 'Scatter', [int(v) for v in got], mb.scatter(seq, m), (seq, m))
  cmpv(ctx, 'Runs', call(ctx, 'Runs', u.Runs, seq, length),
       mb.runs(seq, length), (seq, length))
  cmpv(ctx, 'LongestRunOfOnes', call(ctx, 'LongestRunOfOnes',
                                     u.LongestRunOfOnes, seq),
       mb.longest_run_of_ones(seq), (seq,))
  for m in ms[:6]:
    cmpv(ctx, 'OverlappingRunsOfOnes',
         call(ctx, 'OverlappingRunsOfOnes', u.OverlappingRunsOfOnes, seq, m),
         mb.overlapping_runs_of_ones(seq, m), (seq, m))
  cmpv(ctx, 'ReverseBits', call(ctx, 'ReverseBits', u.ReverseBits, seq, length),
       mb.reverse_bits(seq, length), (seq, length))
  got = call(ctx, 'Bits', u.Bits, seq, length)
  if got != 'RAISED':
    cmpv(ctx, 'Bits', list(got), mb.pm1(seq, length), (seq, length))
  cmpv(ctx, 'BitCount', int(call(ctx, 'BitCount', u.BitCount, seq)),
       mb.popcount(seq), (seq,))


def run_exh(ctx, spec):
  from paranoid_crypto.lib.randomness_tests import util as u
  for length in range(1, spec['maxlen'] + 1):
    ms = list(range(1, length + 1))
    for seq in range(spec['part'], 1 << length, NSH):
      if ctx.want('%d/%d' % (length, seq)):
        all_prims(ctx, u, seq, length, ms, ms, list(range(1, length + 3)))
  if spec['part'] == 0:
    ctx.sample({'string_lsb_first': mb.lsb_string(0b1011001, 7), 'length': 7,
                'primitives': 'all, every m <= length'})
    # argument validation of SubSequences (documented ValueErrors)
    for args in ((5, 3, 0), (5, 3, -1), (5, -1, 1), (9, 3, 2), (1, 3, 4)):
      ctx.count('evaluations')
      try:
        list(u.SubSequences(*args))
        ctx.violation('SubSequences-accepts-invalid', 'SubSequences%r did not '
                      'raise' % (args,), {'args': args})
      except ValueError:
        ctx.count('validation_rejections')
    for f, args in ((u.FrequencyCount, (1, 3, 4)),):
      ctx.count('evaluations')
      try:
        f(*args)
        ctx.violation('FrequencyCount-accepts-invalid', 'm > length accepted',
                      {'args': args})
      except ValueError:
        ctx.count('validation_rejections')
    # length 0
    cmpv(ctx, 'Runs', u.Runs(0, 0), 0, (0, 0))
    cmpv(ctx, 'ReverseBits', u.ReverseBits(0, 0), 0, (0, 0))
    cmpv(ctx, 'Bits', list(u.Bits(0, 0)), [], (0, 0))
    cmpv(ctx, 'SplitSequence', u.SplitSequence(0, 0, 3), [], (0, 0, 3))


def _strings(rng, length):
  """Random, constant, sparse, periodic strings of a given length."""
  full = (1 << length) - 1
  yield rng.bits(length)
  k = rng.below(6)
  if k == 0:
    yield 0
  elif k == 1:
    yield full
  elif k == 2:
    yield 1 << rng.below(length)
  elif k == 3:
    per = rng.randint(1, 9)
    pat = rng.bits(per) | 1
    v = 0
    for i in range(0, length, per):
      v |= pat << i
    yield v & full
  elif k == 4:
    yield full ^ (1 << rng.below(length))
  else:
    yield rng.bits(length) & rng.bits(length) & rng.bits(length)


def run_freq(ctx, spec):
  """Both sides of 50*2^m < length for m = 1.. at every residue mod 8."""
  from paranoid_crypto.lib.randomness_tests import util as u
  rng = ctx.rng('freq')
  cases = []
  for m in range(1, spec['mmax'] + 1):
    thr = 50 * 2 ** m
    for d in range(-8, 10):
      cases.append((m, thr + d))
    cases.append((m, thr * 3 + rng.below(64)))
  cases = [c for i, c in enumerate(cases) if i % 8 == spec['part']]
  for m, length in cases:
    if not ctx.want('%d/%d' % (m, length)):
      continue
    for seq in itertools.islice(_strings(rng, length), spec['n']):
      ctx.distinct('freq', m, length, seq & 0xffff)
      for wrap in (True, False):
        got = call(ctx, 'FrequencyCount', u.FrequencyCount, seq, length, m,
                   wrap)
        if got == 'RAISED':
          continue
        ctx.count('freq_fast_path' if 50 * 2 ** m < length else
                  'freq_slow_path')
        if length % 8:
          ctx.count('freq_tail_bits')
        cmpv(ctx, 'FrequencyCount', [int(v) for v in got],
             mb.frequency_count(seq, length, m, wrap),
             ('<%d bits>' % length, length, m, wrap))
      # neighbouring m on the same string
      for m2 in (m - 1, m + 1):
        if m2 >= 1:
          got = call(ctx, 'FrequencyCount', u.FrequencyCount, seq, length, m2)
          if got != 'RAISED':
            cmpv(ctx, 'FrequencyCount', [int(v) for v in got],
                 mb.frequency_count(seq, length, m2, True),
                 ('<%d bits>' % length, length, m2, True))
  # concentrated tallies: strings in which one window value occurs 2^16 times
  # and more at every stride (constant, period 2, period 4, one stray bit) -
  # a narrow intermediate counter wraps there and nowhere else
  length = [2 ** 18, 2 ** 18 + 5, 2 ** 19 + 3, 2 ** 20 + 1, 2 ** 18 + 8,
            2 ** 18 + 4, 2 ** 19, 2 ** 18 + 1][spec['part']]
  full = (1 << length) - 1
  conc = [0, full, full // 3, full // 15 * 5, 1 << (length // 2),
          full ^ (1 << (length // 3))]
  for m in (1, 2, 3, 5, 8):
    if not ctx.want('conc/%d/%d' % (m, length)):
      continue
    for seq in conc:
      for wrap in (True, False):
        got = call(ctx, 'FrequencyCount', u.FrequencyCount, seq, length, m,
                   wrap)
        if got == 'RAISED':
          continue
        ctx.count('freq_concentrated')
        ctx.maxc('freq_max_single_count', max(int(v) for v in got))
        cmpv(ctx, 'FrequencyCount', [int(v) for v in got],
             mb.frequency_count(seq, length, m, wrap),
             ('<%d bits, concentrated>' % length, length, m, wrap))
  try:
    ctx.sample({'fn': 'FrequencyCount', 'm': m, 'length': length,
                'threshold': '50*2^m = %d' % (50 * 2 ** m)})
  except NameError:
    pass


def run_prims(ctx, spec):
  from paranoid_crypto.lib.randomness_tests import util as u
  rng = ctx.rng('prims')
  for i in range(spec['n']):
    if not ctx.want('p%d' % i):
      continue
    length = rng.choice([17, 63, 64, 65, 127, 255, 256, 257, 1000, 1001, 1002,
                         1003, 1004, 1005, 1006, 1007, 4096,
                         rng.randint(17, 9000),
                         rng.randint(17, 2 ** 16) if i % 10 == 0 else 300])
    for seq in itertools.islice(_strings(rng, length), 2):
      ms = sorted({1, 2, 3, rng.randint(1, 12), rng.randint(1, 16)})
      blocks = sorted({1, 7, 8, 9, 16, 24, 31, 32, 33, 64, rng.randint(1, 70),
                       rng.randint(1, 70)})
      widths = sorted({1, 2, 3, 8, 64, rng.randint(1, 200)})
      all_prims(ctx, u, seq, length, ms, blocks, widths)
    # SplitSequence with seq longer than length (documented: extra ignored)
    seq = rng.bits(length + 40)
    for m in (8, 12):
      got = call(ctx, 'SplitSequence', u.SplitSequence, seq, length, m)
      if got != 'RAISED':
        cmpv(ctx, 'SplitSequence', [int(v) for v in got],
             mb.split_sequence(seq, length, m), ('<long>', length, m))
  try:
    ctx.sample({'length': length, 'ms': ms, 'blocks': blocks, 'widths': widths})
  except NameError:
    pass


def _rank_all(ctx, u, rows, tag):
  want = mb.gf2_rank(rows)
  if any(rows):
    ctx.distinct('rank', tag, tuple(rows) if len(rows) < 8 else hash(
        tuple(rows)))
  for name, f in (('BinaryMatrixRank', u.BinaryMatrixRank),
                  ('_BinaryMatrixRankSmall', u._BinaryMatrixRankSmall),
                  ('_BinaryMatrixRankLarge', u._BinaryMatrixRankLarge)):
    if name == '_BinaryMatrixRankSmall' and len(rows) > 300:
      continue
    got = call(ctx, name, f, list(rows))
    if got != 'RAISED':
      cmpv(ctx, name, int(got), want, (tag, len(rows)))
  ctx.count('rank_path_large' if len(rows) >= 50 else 'rank_path_small')


def run_rank_small(ctx, spec):
  from paranoid_crypto.lib.randomness_tests import util as u
  for (r, c) in ((0, 0), (1, 1), (1, 4), (2, 2), (2, 3), (3, 3), (4, 4),
                 (3, 5), (5, 3), (4, 3), (2, 6)):
    for rows in itertools.product(range(1 << c), repeat=r):
      if ctx.want('%dx%d' % (r, c)):
        _rank_all(ctx, u, list(rows), '%dx%d' % (r, c))
  ctx.count('evaluations')
  try:
    u.BinaryMatrixRank([1, -1])
    ctx.violation('BinaryMatrixRank-negative-accepted', 'no ValueError', None)
  except ValueError:
    ctx.count('validation_rejections')
  try:
    ctx.sample({'fn': 'BinaryMatrixRank', 'shapes': 'all matrices up to 4x4, '
                '3x5, 5x3, 4x3, 2x6'})
  except NameError:
    pass


def run_rank_rand(ctx, spec):
  from paranoid_crypto.lib.randomness_tests import util as u
  rng = ctx.rng('rank')
  shapes = [(49, 49), (50, 50), (51, 51), (31, 40), (32, 40), (33, 64),
            (255, 70), (256, 70), (257, 300), (64, 64), (100, 7), (7, 100),
            (128, 128), (60, 1), (1, 60), (50, 0)]
  if spec.get('big'):
    shapes += [(8191, 90), (8192, 90), (8193, 40), (1024, 1024)]
  for i in range(spec['n']):
    r, c = shapes[i % len(shapes)] if i < 3 * len(shapes) else (
        rng.randint(1, 300), rng.randint(1, 300))
    if not ctx.want('%d/%dx%d' % (i, r, c)):
      continue
    kind = rng.below(5)
    if c == 0:
      rows = [0] * r
    elif kind == 0:
      rows = [rng.bits(c) for _ in range(r)]
    elif kind == 1:    # planted rank k
      k = rng.randint(0, min(r, c))
      basis = [rng.bits(c) for _ in range(k)]
      rows = []
      for _ in range(r):
        v = 0
        for b in basis:
          if rng.chance(1, 2):
            v ^= b
        rows.append(v)
    elif kind == 2:    # duplicate / zero rows
      rows = [rng.bits(c) for _ in range(r)]
      for _ in range(r // 3 + 1):
        rows[rng.below(r)] = rows[rng.below(r)] if rng.chance(1, 2) else 0
    elif kind == 3:    # single column / identity-like
      rows = [1 << (j % c) for j in range(r)]
      rng.shuffle(rows)
    else:              # lower-triangular dense
      rows = [rng.bits(min(c, j + 1)) for j in range(r)]
    _rank_all(ctx, u, rows, '%dx%d/k%d' % (r, c, kind))
  try:
    ctx.sample({'fn': 'BinaryMatrixRank', 'shape': [r, c], 'kind': kind})
  except NameError:
    pass


UTIL_FUNCS = ['FrequencyCount', 'SubSequences', 'SplitSequence', 'Scatter',
              'Runs', 'LongestRunOfOnes', 'OverlappingRunsOfOnes',
              'ReverseBits', 'Bits', 'BitCount', 'BinaryMatrixRank']


def run(ctx, spec):
  from paranoid_crypto.lib.randomness_tests import util as u
  from vp import contracts
  pm = contracts.PurityMonitor(ctx, keep=200)
  for f in UTIL_FUNCS:
    pm.wrap(u, f, norm=(lambda v: sorted(v)) if f == 'SubSequences' else (
        (lambda v: list(v)) if f == 'Bits' else None))
  try:
    _run(ctx, spec)
    pm.recheck()
  finally:
    pm.restore()


def _run(ctx, spec):
  s = spec['shard']
  if s.startswith('exh'):
    run_exh(ctx, spec)
  elif s.startswith('freq'):
    run_freq(ctx, spec)
  elif s.startswith('prims'):
    run_prims(ctx, spec)
  elif s == 'rank-small':
    run_rank_small(ctx, spec)
  else:
    run_rank_rand(ctx, spec)


def finalize(agg, tier):
  c = agg['counters']
  inc = [('reach counter %s is zero' % k) for k in (
      'freq_fast_path', 'freq_slow_path', 'freq_tail_bits', 'rank_path_large',
      'rank_path_small', 'fn:Scatter', 'fn:SplitSequence', 'fn:SubSequences',
      'validation_rejections') if not c.get(k)]
  return [], inc
