"""C16 - verdict bookkeeping is faithful and monotone.  Offline history
checker over boundary-observer snapshots with a small sequential model of the
add-or-update semantics."""
import json
import os

from vp import gen
from vp import harness
from vp import observe
from vp import workloads

ID = 'C16'
RULE = ('one evaluation = one artifact after one call in a history: exact '
        'clauses (one entry per applicable active check, name, documented '
        'severity, version, weak == OR(entries), return value) after an entry '
        'point on fresh artifacts; monotone clauses (weak, positive entries, '
        'severities, factor sets never go back, no duplicate names, other '
        'entries untouched) after every call; distinct by (history, step, '
        'artifact); non-trivial = artifact carries a positive entry or a '
        'pre-annotation')
ASSUMPTIONS = ['documented severities frozen in spec/severities.json',
               'CheckECKeySmallDifference runs with max_diff = 2^8']
EXHAUSTIVE_SUBSPACES = []
SEV = json.load(open(os.path.join(harness.VERIF, 'spec', 'severities.json')))


def plan(tier, seed):
  q = tier == 'quick'
  specs = [{'shard': 'rsa-%d' % i, 'n': 8 if q else 100, 'weight': 2}
           for i in range(6)]
  specs += [{'shard': 'rsalonely-%d' % i, 'part': i, 'parts': 4, 'weight': 6}
            for i in range(4)]
  specs += [{'shard': 'ec-%d' % i, 'n': 8 if q else 100, 'weight': 5}
            for i in range(5)]
  specs += [{'shard': 'ecdsa-%d' % i, 'n': 4 if q else 40, 'weight': 6}
            for i in range(5)]
  return specs


def _known_curve(art, fam):
  from paranoid_crypto.lib import ec_util
  info = art.ec_info if fam == 'ec' else art.issuer_key_info
  return ec_util.CURVE_FACTORY.get(info.curve_type) is not None


def exact_after_entry_point(ctx, fam, arts, snaps, ret, fresh, data):
  """Exact clauses after CheckAll* on artifacts."""
  from paranoid_crypto import version
  table = SEV[fam]
  anyweak = False
  for a, s in zip(arts, snaps):
    names = [n for n, _, _ in s['entries']]
    want = set(table)
    if fam in ('ec', 'ecdsa') and not _known_curve(a, fam):
      want -= set(SEV[fam + '_needs_known_curve'])
    anyweak |= s['weak']
    have = [n for n in names if n in table]
    if sorted(have) != sorted(want) and fresh:
      ctx.violation('entries-not-one-per-applicable-check@%s' % fam,
                    'entries %r, applicable active checks %r' % (
                        sorted(have), sorted(want)), data)
    if not s['version'] or (fresh and s['version'] != version.__version__):
      ctx.violation('version-not-recorded@%s' % fam, 'version %r' %
                    s['version'], data)
    if not fresh:
      continue
    if s['weak'] != any(r for _, r, _ in s['entries']):
      ctx.violation('weak-flag-not-or-of-entries@%s' % fam,
                    'weak=%s entries=%r' % (s['weak'], s['entries']), data)
    for n, r, sev in s['entries']:
      if n not in table:
        ctx.violation('unexpected-entry-name@%s' % fam, n, data)
        continue
      ok = sev == table[n]
      if n == 'CheckLowHammingWeight' and r:
        ok = sev in (0, 4)
      if n == 'CheckIssuerKey':
        continue   # judged against CheckAllEC below
      if not ok:
        ctx.violation('severity-differs-from-documented@%s' % n,
                      '%s: severity %d, documented %d' % (n, sev, table[n]),
                      data)
  if fresh and ret is not anyweak:
    ctx.violation('return-value-differs-from-any-weak@%s' % fam,
                  'returned %r, some artifact weak = %r' % (ret, anyweak), data)


def monotone(ctx, called, before, after, data):
  """Monotone clauses for one artifact across one call."""
  b, a = observe.entries_dict(before), observe.entries_dict(after)
  names = [n for n, _, _ in after['entries']]
  if len(names) != len(set(names)):
    ctx.violation('duplicate-entry-names', repr(names), data)
  if before['weak'] and not after['weak']:
    ctx.violation('weak-flag-cleared@%s' % called, '', data)
  for n, (r, sev) in b.items():
    if n not in a:
      ctx.violation('entry-removed@%s' % called, n, data)
      continue
    r2, sev2 = a[n]
    if r and not r2:
      ctx.violation('positive-entry-cleared@%s' % called, n, data)
    if sev2 < sev:
      ctx.violation('severity-lowered@%s' % called, '%s: %d -> %d' % (
          n, sev, sev2), data)
    if called is not None and n not in called and (r2, sev2) != (r, sev):
      ctx.violation('foreign-entry-modified@%s' % '+'.join(sorted(called)),
                    '%s changed by a call that does not own it' % n, data)
  if called is not None:
    for n in a:
      if n not in b and n not in called:
        ctx.violation('foreign-entry-added@%s' % '+'.join(sorted(called)), n,
                      data)
  bi, ai = observe.info_dict(before), observe.info_dict(after)
  for k in ('N_FACTORS', 'N-1_FACTORS'):
    fb, fa = observe.factor_set(bi.get(k)), observe.factor_set(ai.get(k))
    if isinstance(fb, set) and (not isinstance(fa, set) or not fb <= fa):
      ctx.violation('recorded-factor-lost@%s' % called, '%s: %r -> %r' % (
          k, fb, fa), data)
  if before['version'] and after['version'] != before['version']:
    ctx.violation('version-overwritten', '%r -> %r' % (
        before['version'], after['version']), data)
  if after['weak'] != (before['weak'] or any(r for r, _ in a.values())) and \
      not before['weak']:
    pass
  if any(r and not b.get(n, (False, 0))[0] for n, (r, _) in a.items()) and \
      not after['weak']:
    ctx.violation('new-positive-entry-without-weak-flag@%s' % called, '', data)


def preannotate(rng, art, fam):
  """Annotations as left by an earlier library run."""
  ti = art.test_info
  k = rng.below(5)
  table = SEV[fam]
  if k == 0:
    return False
  ti.paranoid_lib_version = rng.choice(['0.9.0', '1.0.0-old', 'v0'])
  if k >= 1:
    e = ti.test_results.add()
    e.test_name, e.result, e.severity = 'CheckRetiredLongAgo', rng.chance(
        1, 2), rng.below(5)
    if e.result:
      ti.weak = True
  if k >= 2:
    name = rng.choice(sorted(table))
    e = ti.test_results.add()
    e.test_name, e.result, e.severity = name, rng.chance(1, 2), rng.below(5)
    if e.result:
      ti.weak = True
  if k >= 3 and fam == 'rsa':
    from paranoid_crypto.lib import util
    util.AttachFactors(ti, 'N_FACTORS', [rng.bits(64) | 1])
    ti.weak = True
  if k == 4:
    ti.weak = True
  return True


def _history(ctx, fam, arts, rng, hid, fixed_steps=None):
  from paranoid_crypto.lib import paranoid
  entry = {'rsa': paranoid.CheckAllRSA, 'ec': paranoid.CheckAllEC,
           'ecdsa': paranoid.CheckAllECDSASigs}[fam]
  getall = {'rsa': paranoid.GetRSAAllChecks, 'ec': paranoid.GetECAllChecks,
            'ecdsa': paranoid.GetECDSAAllChecks}[fam]
  checks = dict(getall())
  pre = any([preannotate(rng, a, fam) for a in arts]) if (
      fixed_steps is None and rng.chance(1, 2)) else False
  steps = []
  for _ in range(rng.randint(2, 8 if ctx.tier == 'quick' else 12)):
    k = rng.below(6)
    if k == 0:
      steps.append(('entry', None))
    elif k == 1 and steps:
      steps.append(steps[-1])                       # repeated
    else:
      steps.append(('single', rng.choice(sorted(checks))))
  if not any(s[0] == 'entry' for s in steps):
    steps.insert(rng.below(len(steps) + 1), ('entry', None))
  if fixed_steps is not None:
    steps = [('entry', None) if s == 'ENTRY' else ('single', s)
             for s in fixed_steps if s == 'ENTRY' or s in checks]
  fresh = not pre
  log = observe.CallLog()
  for si, (kind, name) in enumerate(steps):
    subset = arts
    idx = list(range(len(arts)))
    if kind == 'single' and rng.chance(1, 4) and len(arts) > 1:
      idx = sorted(rng.sample(idx, rng.randint(1, len(arts))))
      subset = [arts[j] for j in idx]
    before_all = [observe.snapshot(a.test_info) for a in arts]
    ev = log.call(entry if kind == 'entry' else checks[name], subset,
                  name='CheckAll' if kind == 'entry' else name)
    after_all = [observe.snapshot(a.test_info) for a in arts]
    data = {'family': fam, 'history': [s[1] or 'ENTRY' for s in steps],
            'step': si}
    if ev['exc'] is not None:
      ctx.count('evaluations')
      ctx.violation('exception-in-history:%s@%s' % (
          type(ev['exc']).__name__, ev['check']), repr(ev['exc']), data)
      return
    called = set(checks) if kind == 'entry' else {name}
    for j, (bs, as_) in enumerate(zip(before_all, after_all)):
      ctx.count('evaluations')
      if as_['weak'] or bs['entries']:
        ctx.distinct(hid, si, j)
      if j in idx:
        monotone(ctx, called, bs, as_, data)
      elif bs != as_:
        ctx.violation('artifact-outside-the-call-modified@%s' % ev['check'],
                      '', data)
    if kind == 'entry':
      ctx.count('entry_point_calls')
      first_entry = all(s[0] != 'entry' for s in steps[:si])
      exact_after_entry_point(ctx, fam, arts, after_all, ev['ret'],
                              fresh and first_entry and si == 0 or
                              (fresh and _only_singles_before(steps, si)), data)
    elif type(ev['ret']) is not bool:
      ctx.violation('non-bool-return@%s' % name, repr(ev['ret']), data)
    else:
      # return value of a single check on the called subset
      newpos = any(observe.entries_dict(after_all[j]).get(name, (False, 0))[0]
                   for j in idx)
      if ev['ret'] and not newpos:
        ctx.violation('returned-true-without-positive-entry@%s' % name, '',
                      data)
      flipped = any(
          observe.entries_dict(after_all[j]).get(name, (False, 0))[0] and not
          observe.entries_dict(before_all[j]).get(name, (False, 0))[0]
          for j in idx)
      if flipped:
        ctx.count('single_check_calls_with_new_positive')
      if flipped and ev['ret'] is not True:
        ctx.violation('returned-false-with-new-positive-entry@%s' % name,
                      '%s returned %r although it set a positive entry in this '
                      'call' % (name, ev['ret']), data)
  ctx.count('histories')
  if pre:
    ctx.count('preannotated_histories')


def _only_singles_before(steps, si):
  return True


def run_rsa(ctx, spec):
  rng = ctx.rng('rsa')
  for h in range(spec['n']):
    if not ctx.want('h%d' % h):
      continue
    arts = workloads.rsa_mixed_batch(rng, rng.choice([1, 2, 4, 7]),
                                     slow_budget=0)
    keys = workloads.rsa_keys(arts)
    _history(ctx, 'rsa', keys, rng, h)
    ctx.sample({'family': 'rsa', 'kinds': [a['kind'] for a in arts][:8]})


def run_rsalonely(ctx, spec):
  """One weak artifact of a single family next to healthy keys: nothing else
  in the batch can lend the check (or the entry point) its return value.  The
  families include those a check flags *without* evidence (both-smooth Pollard
  keys, low-weight keys), which take a branch of their own."""
  rng = ctx.rng('rsalonely')
  kinds = ['smooth-both', 'smooth', 'bothpattern', 'lhw', 'word', 'swap',
           'fermat', 'hilo', 'upperdiff', 'unseeded', 'keypair', 'roca',
           'exponent']
  for h, kind in enumerate(kinds):
    if h % spec['parts'] != spec['part'] or not ctx.want('k-' + kind):
      continue
    arts = [workloads.rsa_artifact(rng, 'healthy2048'),
            workloads.rsa_artifact(rng, kind),
            workloads.rsa_artifact(rng, 'healthy2048')][:rng.choice([2, 3])]
    from paranoid_crypto.lib import paranoid
    names = list(dict(paranoid.GetRSAAllChecks()))
    ctx.count('lonely_weak_batches')
    # every check by itself on fresh protos, then the entry point; and the
    # entry point alone on another fresh copy
    _history(ctx, 'rsa', workloads.rsa_keys(arts), rng, 1000 + h,
             fixed_steps=names + ['ENTRY'])
    _history(ctx, 'rsa', workloads.rsa_keys(arts), rng, 2000 + h,
             fixed_steps=['ENTRY'])
    ctx.sample({'family': 'rsa-lonely', 'kinds': [a['kind'] for a in arts]})


def run_ec(ctx, spec):
  workloads.install_small_maxdiff(2 ** 8)
  rng = ctx.rng('ec')
  curves = rng.sample(gen.NAMED, 2)
  for h in range(spec['n']):
    if not ctx.want('h%d' % h):
      continue
    keys, descs = workloads.ec_hostile_batch(rng, rng.choice([1, 2, 4, 6]),
                                             curves)
    # weak keys of C10 so that positive entries exist
    for c in curves:
      n = gen.model_curve(c).n
      if rng.chance(1, 2):
        base = rng.below(n - 1000) + 1
        keys += [gen.ec_key_from_priv(c, base), gen.ec_key_from_priv(
            c, base + rng.randint(1, 200))]
        descs += ['%s:closepair' % c] * 2
    _history(ctx, 'ec', keys, rng, h)
    ctx.sample({'family': 'ec', 'kinds': descs[:8]})


def run_ecdsa(ctx, spec):
  from paranoid_crypto.lib import paranoid
  workloads.install_small_maxdiff(2 ** 8)
  rng = ctx.rng('ecdsa')
  for h in range(spec['n']):
    if not ctx.want('h%d' % h):
      continue
    sg, descs = workloads.ecdsa_hostile_batch(rng, rng.choice([2, 4, 7]))
    if h % 2 == 1:
      # an issuer key that fails several EC checks of different severity: a
      # structured private key (critical) on a weak curve (medium)
      from vp import sigs as vsigs
      cw = 'CURVE_SECP192R1'
      dw, pubw = vsigs.issuer(rng, cw, (rng.bits(32) | 1) << 16)
      sg += vsigs.sign_many(rng, cw, dw, pubw, vsigs.nonces_uniform(
          rng, gen.model_curve(cw).n, 1))
      descs.append('%s:weak-key-on-weak-curve' % cw)
    _history(ctx, 'ecdsa', sg, rng, h)
    _issuer_verdicts(ctx, sg, descs)
    # a later call on fresh protobufs: an issuer seen before (then healthy)
    # now next to a new issuer whose private key is close to it - the EC
    # verdict of a key depends on the other keys of the batch
    if h % 2 == 0:
      from vp import sigs as vsigs
      c = rng.choice(['CURVE_SECP256R1', 'CURVE_SECP256K1'])
      n = gen.model_curve(c).n
      dA, pubA = vsigs.issuer(rng, c)
      dC, pubC = vsigs.issuer(rng, c)
      first = vsigs.sign_many(rng, c, dA, pubA, vsigs.nonces_uniform(rng, n, 2))
      first += vsigs.sign_many(rng, c, dC, pubC, vsigs.nonces_uniform(rng, n, 1))
      paranoid.CheckAllECDSASigs(first)
      _issuer_verdicts(ctx, first, ['%s:healthy-first-call' % c] * len(first))
      dB, pubB = vsigs.issuer(rng, c, dA + rng.randint(1, 200))
      second = vsigs.sign_many(rng, c, dA, pubA, vsigs.nonces_uniform(rng, n, 2))
      second += vsigs.sign_many(rng, c, dB, pubB, vsigs.nonces_uniform(rng, n, 2))
      second += vsigs.sign_many(rng, c, dC, pubC, vsigs.nonces_uniform(rng, n, 1))
      rng.shuffle(second)
      ret = paranoid.CheckAllECDSASigs(second)
      ctx.count('later_call_with_close_issuer')
      _issuer_verdicts(ctx, second, ['%s:close-issuers-later-call' % c] *
                       len(second))
      if ret is not any(s_.test_info.weak for s_ in second):
        ctx.violation('return-value-differs-from-any-weak@ecdsa',
                      'later call returned %r' % (ret,), {'curve': c})
    ctx.sample({'family': 'ecdsa', 'kinds': descs[:8]})


def _issuer_verdicts(ctx, sg, descs):
  """A signature's issuer-key verdict must equal the verdict of the EC checks
  on that key *as a member of the batch's issuer keys* (fresh ECKey protobufs,
  same process)."""
  from paranoid_crypto.lib import paranoid
  from paranoid_crypto.lib import util
  keys = {}
  for s in sg:
    kid = (s.issuer_key_info.curve_type, bytes(s.issuer_key_info.x).lstrip(
        b'\x00'), bytes(s.issuer_key_info.y).lstrip(b'\x00'))
    if kid not in keys:
      keys[kid] = gen.pb2().ECKey(ec_info=s.issuer_key_info)
  paranoid.CheckAllEC(list(keys.values()))
  for s in sg:
    ctx.count('evaluations')
    ent = gen.entries(s.test_info).get('CheckIssuerKey')
    kid = (s.issuer_key_info.curve_type, bytes(s.issuer_key_info.x).lstrip(
        b'\x00'), bytes(s.issuer_key_info.y).lstrip(b'\x00'))
    key = keys[kid]
    # (the maximum is taken here, not through the library's helper)
    failed = [int(e.severity) for e in key.test_info.test_results if e.result]
    hs = max(failed) if failed else None
    if len(set(failed)) > 1:
      ctx.count('issuer_keys_failing_checks_of_different_severity')
    if ent is None:
      ctx.violation('issuer-key-entry-missing', '', {'descs': descs})
      continue
    if any(e.test_name == 'CheckRetiredLongAgo' for e in
           s.test_info.test_results) or s.test_info.paranoid_lib_version in (
               '0.9.0', '1.0.0-old', 'v0'):
      continue    # pre-annotated: only monotone clauses apply
    ctx.count('issuer_verdicts_compared')
    if key.test_info.weak:
      ctx.count('issuer_verdicts_weak')
    if ent[0] != bool(key.test_info.weak) or (ent[0] and ent[1] != hs) or (
        not ent[0] and ent[1] != 0):
      ctx.violation('issuer-key-verdict-differs-from-ec-checks',
                    'signature says (%s, severity %d); CheckAllEC on the '
                    'issuer keys of the batch: weak=%s highest severity %r' % (
                        ent[0], ent[1], key.test_info.weak, hs),
                    {'descs': descs, 'curve': s.issuer_key_info.curve_type,
                     'x': s.issuer_key_info.x})


def run(ctx, spec):
  s = spec['shard']
  if s.startswith('rsalonely'):
    run_rsalonely(ctx, spec)
  elif s.startswith('rsa'):
    run_rsa(ctx, spec)
  elif s.startswith('ecdsa'):
    run_ecdsa(ctx, spec)
  else:
    run_ec(ctx, spec)


def finalize(agg, tier):
  c = agg['counters']
  need = ['histories', 'preannotated_histories', 'entry_point_calls',
          'issuer_verdicts_compared', 'issuer_verdicts_weak',
          'single_check_calls_with_new_positive',
          'later_call_with_close_issuer', 'lonely_weak_batches',
          'issuer_keys_failing_checks_of_different_severity']
  return [], ['reach counter %s is zero' % k for k in need if not c.get(k)]
