"""C02 - every discrete log or key relation reported for an EC key or signer
is true.  Boundary observer + contracts on the DL routines; the workload aims
at the *filter on wrong guesses* (healthy, arbitrary and adversarial
signatures whose lattice guesses must be discarded)."""
from vp import contracts
from vp import gen
from vp import observe
from vp import sigs
from vp import workloads
from vp.models import ec as mec

ID = 'C02'
RULE = ('one evaluation = one artifact after a real Check call: every '
        'recorded DISCRETE_LOG v must satisfy v*G == the (issuer) public point '
        '(recomputed by OpenSSL / the model), every DISCRETE_LOG_DIFF relation '
        'must hold for a point of the batch, and a positive nonce/LCG/U2F '
        'entry must come with such a log; distinct by (check, artifact); '
        'non-trivial = a log or relation was recorded, or the batch was built '
        'to provoke a wrong guess')
ASSUMPTIONS = ['verification multiplies with OpenSSL, cross-checked against '
               'the model law on a sample',
               'the 2^-256 chance of a coincidental correct guess is ignored']
EXHAUSTIVE_SUBSPACES = []
NONCE_CHECKS = ['CheckLCGNonceGMP', 'CheckLCGNonceJavaUtilRandom',
                'CheckNonceMSB', 'CheckNonceCommonPrefix',
                'CheckNonceCommonPostfix', 'CheckNonceGeneralized',
                'CheckCr50U2f']


def plan(tier, seed):
  q = tier == 'quick'
  specs = []
  for c in gen.NAMED:
    specs.append({'shard': 'keys-' + c, 'curve': c, 'n': 10 if q else 60,
                  'weight': 5})
  scen = ['healthy', 'arbitrary', 'guessable', 'interleaved', 'adversarial',
          'u2f', 'lcg', 'mixedcurves']
  for i, s in enumerate(scen):
    for j in range(2 if q else 4):
      specs.append({'shard': 'sigs-%s-%d' % (s, j), 'scenario': s,
                    'n': 3 if q else 14, 'weight': 4})
  for j in range(2 if q else 6):
    specs.append({'shard': 'sigs-manyissuers-%d' % j,
                  'scenario': 'manyissuers', 'n': 1, 'weight': 9})
  return specs


def _verify_log(ctx, curve, v, pub):
  ctx.count('logs_verified')
  n = gen.model_curve(curve).n
  P = sigs.mulg(curve, v)
  if ctx.counters.get('logs_verified', 0) % 25 == 1:
    if gen.model_curve(curve).mulg(v % n) != P:
      ctx.violation('harness-openssl-model-disagree', 'k*G', {'k': v})
  return P is not mec.INF and P == pub


def dl_contract(curve_of):
  def post(res, self, points, *a, **kw):
    mc = curve_of(self)
    if mc is None:
      return None
    for P, v in zip(points, res):
      if v is None:
        continue
      Pm = mec.INF if P[0] is None else (int(P[0]), int(P[1]))
      if mc.mul(mc.g, int(v)) != Pm:
        return 'returned log %r for a point it does not generate' % (int(v),)
    return None
  return post


def run_keys(ctx, spec):
  from paranoid_crypto.lib import ec_aggregate_checks as ea
  from paranoid_crypto.lib import ec_single_checks as es
  from paranoid_crypto.lib import ec_util
  rng = ctx.rng('keys')
  curve = spec['curve']
  mc = gen.model_curve(curve)
  n, bits = mc.n, mc.n.bit_length()
  by_obj = {id(gen.repo_curve(c)): gen.model_curve(c) for c in gen.NAMED}
  mons = [contracts.monitor(ctx, ec_util.EcCurve, 'BatchDL',
                            dl_contract(lambda s: by_obj.get(id(s)))),
          contracts.monitor(ctx, ec_util.EcCurve, 'ExtendedBatchDL',
                            dl_contract(lambda s: by_obj.get(id(s))))]
  try:
    weak = es.CheckWeakECPrivateKey()
    for b in range(2):
      if not ctx.want('batch%d' % b):
        continue
      ds = []
      for i in range(spec['n']):
        k = i % 6
        if k == 0:
          ds.append(rng.below(n - 1) + 1)
        elif k == 1:
          ds.append((rng.bits(32) | 1) << (8 * rng.randint(0, (bits - 32) // 8)))
        elif k == 2:
          ds.append((rng.bits(32) | 1) * sum(1 << (32 * j) for j in range(
              rng.randint(2, bits // 32))))
        elif k == 3:
          ds.append(n - (rng.bits(32) | 1))         # negative small log
        elif k == 4:
          ds.append(2 ** 32 + rng.bits(20))          # just outside the range
        else:
          ds.append(rng.bits(rng.randint(2, 33)) + 1)
      ds = [d % n or 1 for d in ds]
      # a key next to its negation (same x, private keys d and n - d), in
      # both orders, and a plain duplicate
      for j in (1, 2, 5):
        if j < len(ds):
          ds.insert(rng.below(len(ds) + 1), n - ds[j])
      ds.append(ds[1] if len(ds) > 1 else 1)
      ctx.count('negated_key_pairs', 3)
      keys = [gen.ec_key_from_priv(curve, d) for d in ds]
      weak.Check(keys)
      for d, key in zip(ds, keys):
        ctx.count('evaluations')
        snap = observe.snapshot(key.test_info)
        v = observe.info_dict(snap).get('DISCRETE_LOG')
        ent = observe.entries_dict(snap).get('CheckWeakECPrivateKey')
        pub = (int.from_bytes(key.ec_info.x, 'big'),
               int.from_bytes(key.ec_info.y, 'big'))
        if v is not None:
          ctx.distinct(curve, 'log', d)
          ctx.count('key_logs_recorded')
          if not _verify_log(ctx, curve, int(v, 16), pub):
            ctx.violation('false-discrete-log@CheckWeakECPrivateKey',
                          '%s: recorded log %s for a key whose private key is '
                          '%x' % (curve, v, d), {'curve': curve, 'd': d})
        if ent and ent[0] and v is None:
          ctx.violation('weak-key-entry-without-log', curve, {'d': d})
      # difference relations
      for md in (2 ** 6, 2 ** 10):
        base = rng.below(n - 2 ** 12) + 1
        dd = [base, base + rng.randint(1, md - 1), base + md + 5,
              rng.below(n - 1) + 1, base, (n - base) % n or 1,
              base + rng.randint(1, md - 1)]
        rng.shuffle(dd)
        keys = [gen.ec_key_from_priv(curve, d) for d in dd]
        pts = {(int.from_bytes(k.ec_info.x, 'big'),
                int.from_bytes(k.ec_info.y, 'big')) for k in keys}
        ea.CheckECKeySmallDifference(max_diff=md).Check(keys)
        for d, key in zip(dd, keys):
          ctx.count('evaluations')
          info = gen.attached(key.test_info)
          rel = info.get('DISCRETE_LOG_DIFF')
          if rel is None:
            continue
          ctx.count('relations_recorded')
          ctx.distinct(curve, 'diff', d, md)
          parsed = observe.parse_diff(rel)
          P = mc.mulg(d)
          ok = parsed is not None
          if ok:
            x, y, kk = parsed
            ok = (x, y) in pts and mc.sub(P, (x, y)) == mc.mulg(kk % n)
          if not ok:
            ctx.violation('false-key-relation@CheckECKeySmallDifference',
                          '%s: recorded %r for private key %x: relation does '
                          'not hold for a point of the batch' % (curve, rel, d),
                          {'curve': curve, 'd': d, 'dd': dd})
    # the same key objects through the whole EC registry: keys that are weak
    # *and* close to each other carry two kinds of evidence side by side
    if ctx.want('both-evidence'):
      from paranoid_crypto.lib import paranoid
      workloads.install_small_maxdiff(2 ** 8)
      w = rng.bits(31) | 1
      dd = [w, w + 77, (rng.bits(32) | 1) << 16, rng.below(n - 1) + 1,
            rng.below(n - 1) + 1]
      dd.append(dd[3] + 5)
      keys = [gen.ec_key_from_priv(curve, d) for d in dd]
      pts = {(int.from_bytes(k.ec_info.x, 'big'),
              int.from_bytes(k.ec_info.y, 'big')) for k in keys}
      paranoid.CheckAllEC(keys)
      for d, key in zip(dd, keys):
        ctx.count('evaluations')
        info = gen.attached(key.test_info)
        pub = (int.from_bytes(key.ec_info.x, 'big'),
               int.from_bytes(key.ec_info.y, 'big'))
        ents = gen.entries(key.test_info)
        if len(info) >= 2:
          ctx.count('keys_with_two_kinds_of_evidence')
        v = info.get('DISCRETE_LOG')
        if v is not None:
          ctx.count('key_logs_recorded')
          try:
            ok = _verify_log(ctx, curve, int(v, 16), pub)
          except ValueError:
            ok = False
          if not ok:
            ctx.violation('false-discrete-log@CheckAllEC',
                          '%s: recorded DISCRETE_LOG %r for private key %x' % (
                              curve, v[:80], d), {'curve': curve, 'd': d})
        rel = info.get('DISCRETE_LOG_DIFF')
        if rel is not None:
          ctx.count('relations_recorded')
          parsed = observe.parse_diff(rel)
          ok = parsed is not None
          if ok:
            x, y, kk = parsed
            ok = (x, y) in pts and mc.sub(mc.mulg(d), (x, y)) == mc.mulg(kk % n)
          if not ok:
            ctx.violation('false-key-relation@CheckAllEC', '%s: recorded %r '
                          'for private key %x' % (curve, rel[:80], d),
                          {'curve': curve, 'd': d})
        for name, kind in (('CheckWeakECPrivateKey', 'DISCRETE_LOG'),
                           ('CheckECKeySmallDifference', 'DISCRETE_LOG_DIFF')):
          if (ents.get(name) or (False,))[0] and kind not in info:
            ctx.violation('weak-key-entry-without-evidence@%s' % name,
                          '%s flagged private key %x but no %s is recorded' % (
                              name, d, kind), {'curve': curve, 'd': d})
    try:
      ctx.sample({'curve': curve, 'private_keys': ds[:4]})
    except NameError:
      pass
  finally:
    for m in mons:
      m.restore()


def _issuer_guess_monitor(ctx):
  from paranoid_crypto.lib import ecdsa_sig_checks as sc
  orig = sc._IssuerDLogs

  def wrapped(guesses, pks, curve):
    res = orig(guesses, pks, curve)
    ctx.count('lattice_guesses_observed', len(guesses))
    ctx.maxc('max_guesses_in_one_call', len(guesses))
    ctx.count('guesses_accepted', len(set(res.values())))
    # post-condition of the helper itself: every accepted guess generates the
    # issuer key of the signature index it is recorded for (OpenSSL oracle)
    by_order = {gen.model_curve(c).n: c for c in gen.NAMED}
    cname = by_order.get(int(curve.n))
    owner = {i: pk for pk, idxs in pks.items() for i in idxs}
    for idx, dl in res.items():
      if cname is None or idx not in owner:
        continue
      ctx.count('contract:_IssuerDLogs')
      if not _verify_log(ctx, cname, int(dl), tuple(int(x) for x in owner[idx])):
        ctx.violation('contract:_IssuerDLogs-log-does-not-match-issuer',
                      '_IssuerDLogs recorded %x for signature index %d whose '
                      'issuer key it does not generate (%d guesses)' % (
                          int(dl), idx, len(guesses)), None)
    return res
  sc._IssuerDLogs = wrapped
  return lambda: setattr(sc, '_IssuerDLogs', orig)


def _scenario(rng, name):
  """Returns list of (sig, curve, pub, truth-tag)."""
  out = []
  c1 = rng.choice(['CURVE_SECP256R1', 'CURVE_SECP256K1', 'CURVE_SECP224R1',
                   'CURVE_BRAINPOOLP256R1'])
  n1 = gen.model_curve(c1).n

  def add(curve, d, pub, nonces, tag, hlen=None):
    for s in sigs.sign_many(rng, curve, d, pub, nonces, hlen):
      out.append((s, curve, pub, tag))

  if name == 'healthy':
    for _ in range(rng.randint(1, 3)):
      d, pub = sigs.issuer(rng, c1)
      add(c1, d, pub, sigs.nonces_uniform(rng, n1, rng.randint(1, 14)),
          'healthy')
  elif name == 'arbitrary':
    # r, s arbitrary values in [1, n-1], not produced by any key
    d, pub = sigs.issuer(rng, c1)
    for _ in range(rng.randint(2, 12)):
      out.append((gen.ecdsa_sig(c1, rng.below(n1 - 1) + 1, rng.below(n1 - 1) + 1,
                                gen.msg_hash(rng), pub), c1, pub, 'arbitrary'))
    for rs in ((1, 1), (n1 - 1, n1 - 1), (1, n1 - 1), (2, 3)):
      out.append((gen.ecdsa_sig(c1, rs[0], rs[1], gen.msg_hash(rng), pub), c1,
                  pub, 'arbitrary'))
  elif name == 'guessable':
    for d in rng.sample([1, 2, 3, n1 - 1, n1 - 2, 2 ** 32, 0x01010101], 3):
      d, pub = sigs.issuer(rng, c1, d)
      add(c1, d, pub, sigs.nonces_uniform(rng, n1, rng.randint(1, 6)),
          'healthy-guessable-key')
  elif name == 'interleaved':
    dA, pubA = sigs.issuer(rng, c1)
    dB, pubB = sigs.issuer(rng, c1)
    kind = rng.choice(['msb', 'prefix', 'postfix'])
    width = rng.choice([32, 64])
    cnt = 2 * n1.bit_length() // width + 4
    ks = {'msb': sigs.nonces_msb, 'prefix': sigs.nonces_prefix,
          'postfix': sigs.nonces_postfix}[kind](rng, n1, width, cnt)
    add(c1, dA, pubA, ks, 'biased')
    add(c1, dB, pubB, sigs.nonces_uniform(rng, n1, rng.randint(2, 10)),
        'healthy')
  elif name == 'adversarial':
    # signatures valid under A's key (small nonces) but labelled with B's key
    dA, pubA = sigs.issuer(rng, c1)
    dB, pubB = sigs.issuer(rng, c1)
    ks = sigs.nonces_msb(rng, n1, 64, 14)
    for s in sigs.sign_many(rng, c1, dA, pubB, ks):   # issuer field = B
      out.append((s, c1, pubB, 'foreign-key-relation'))
    if rng.chance(1, 2):
      add(c1, dA, pubA, sigs.nonces_uniform(rng, n1, 3), 'healthy')
  elif name == 'u2f':
    d, pub = sigs.issuer(rng, c1)
    add(c1, d, pub, sigs.nonces_u2f(rng, n1, 2), 'biased')
    d2, pub2 = sigs.issuer(rng, c1)
    add(c1, d2, pub2, sigs.nonces_uniform(rng, n1, 2), 'healthy')
  elif name == 'lcg':
    c1 = 'CURVE_SECP256R1'
    n1 = gen.model_curve(c1).n
    d, pub = sigs.issuer(rng, c1)
    add(c1, d, pub, sigs.nonces_gmp(rng, n1, rng.choice([32, 64, 128]), 8),
        'biased')
    d2, pub2 = sigs.issuer(rng, c1)
    jl = sigs.JavaLcgNonces(rng.bits(48))
    add(c1, d2, pub2, [jl.next(256) % n1 or 1 for _ in range(6)], 'biased-java')
    # honest signatures on curves the LCG checks have no models for, placed
    # in the same batch (per-curve state must not leak to the next curve)
    for c in rng.sample([x for x in gen.NAMED if x != c1], 3):
      dd, pp = sigs.issuer(rng, c)
      add(c, dd, pp, sigs.nonces_uniform(rng, gen.model_curve(c).n,
                                         rng.randint(2, 6)), 'healthy')
  elif name == 'manyissuers':
    # enough weak issuers on one curve for several hundred candidate keys in
    # one call (bounded-size processing of the candidates must keep indices)
    for _ in range(rng.choice([14, 16, 18])):
      d, pub = sigs.issuer(rng, c1)
      add(c1, d, pub, sigs.nonces_msb(rng, n1, 64, 24), 'biased')
  elif name == 'mixedcurves':
    for c in rng.sample(gen.NAMED, 3):
      nn = gen.model_curve(c).n
      d, pub = sigs.issuer(rng, c)
      if rng.chance(1, 2):
        add(c, d, pub, sigs.nonces_msb(rng, nn, 64, 2 * nn.bit_length() // 64
                                       + 3), 'biased')
      else:
        add(c, d, pub, sigs.nonces_uniform(rng, nn, rng.randint(1, 5)),
            'healthy')
  rng.shuffle(out)
  return out


def run_sigs(ctx, spec):
  from paranoid_crypto.lib import ecdsa_sig_checks as sc
  rng = ctx.rng('sigs')
  restore = _issuer_guess_monitor(ctx)
  checks = {name: getattr(sc, name)() for name in NONCE_CHECKS}
  try:
    for b in range(spec['n']):
      if not ctx.want('b%d' % b):
        continue
      batch = _scenario(rng, spec['scenario'])
      if not batch:
        continue
      ctx.sample({'scenario': spec['scenario'], 'signatures': len(batch),
                  'tags': sorted({t for _, _, _, t in batch})})
      for name, chk in checks.items():
        if (spec['scenario'] == 'manyissuers' and
            name == 'CheckLCGNonceJavaUtilRandom'):
          continue   # ten minutes on 400 signatures; nothing to find there
        arts = [type(s)() for s, _, _, _ in batch]
        for a, (s, _, _, _) in zip(arts, batch):
          a.CopyFrom(s)
        try:
          chk.Check(arts)
        except Exception as e:  # pylint: disable=broad-except
          ctx.violation('check-raised-%s@%s' % (type(e).__name__, name),
                        repr(e), {'scenario': spec['scenario']})
          continue
        for a, (s, curve, pub, tag) in zip(arts, batch):
          ctx.count('evaluations')
          snap = observe.snapshot(a.test_info)
          ent = observe.entries_dict(snap).get(name)
          v = observe.info_dict(snap).get('DISCRETE_LOG')
          if tag != 'healthy' or v is not None:
            ctx.distinct(name, spec['scenario'], b, a.ecdsa_sig_info.r)
          if v is not None:
            ctx.count('sig_logs_recorded')
            if not _verify_log(ctx, curve, int(v, 16), pub):
              ctx.violation('false-discrete-log@%s' % name,
                            '%s attached log %s to a %s signature whose '
                            'issuer key it does not generate' % (name, v, tag),
                            {'curve': curve, 'tag': tag, 'pub': pub,
                             'scenario': spec['scenario']})
          if ent and ent[0] and v is None:
            ctx.violation('weak-signature-without-log@%s' % name,
                          '%s marked a %s signature weak without a private '
                          'key' % (name, tag), {'curve': curve, 'tag': tag})
          if ent and ent[0] and not snap['weak']:
            ctx.violation('positive-entry-without-weak-flag@%s' % name, tag,
                          None)
  finally:
    restore()


def run(ctx, spec):
  if spec['shard'].startswith('keys'):
    run_keys(ctx, spec)
  else:
    run_sigs(ctx, spec)


def finalize(agg, tier):
  c = agg['counters']
  need = ['contract:BatchDL', 'contract:ExtendedBatchDL', 'key_logs_recorded',
          'relations_recorded', 'lattice_guesses_observed', 'guesses_accepted',
          'sig_logs_recorded', 'logs_verified', 'contract:_IssuerDLogs',
          'negated_key_pairs', 'keys_with_two_kinds_of_evidence']
  inc = ['reach counter %s is zero' % k for k in need if not c.get(k)]
  if 0 < c.get('lattice_guesses_observed', 0) < 500:
    inc.append('only %d lattice guesses observed' %
               c['lattice_guesses_observed'])
  if c.get('max_guesses_in_one_call', 0) <= 256:
    inc.append('no call with more than 256 candidate keys (max %d)' %
               c.get('max_guesses_in_one_call', 0))
  return [], inc
