"""C19 - number-theory, lattice and linear-algebra helpers return only true
solutions.  Reference-model monitors around the real helper functions."""
import itertools
import math
from fractions import Fraction

ID = 'C19'
RULE = ('every call of a helper is compared with its defining relation '
        '(congruence, brute-force root set, Fraction arithmetic, trial '
        'division, mpmath); a case is distinct by (helper, arguments) and '
        'non-trivial when the helper had something to compute (a solution '
        'exists / matrix non-zero / root planted)')
ASSUMPTIONS = ['python int/Fraction arithmetic and mpmath special functions '
               'are the trusted reference',
               'small-root completeness is decided by miss rate over planted '
               'instances at bound ratios calibrated on the unchanged tree']
EXHAUSTIVE_SUBSPACES = ['2-adic routines: all n < 2^k, k <= 12 (quick: 10)',
                        'integer matrices up to 3x2 with entries in -2..2',
                        'Sieve(n) for n <= 3000', 'DivmodRounded |a|<=60, b<=40']


def plan(tier, seed):
  q = tier == 'quick'
  specs = [
      {'shard': 'adic-exh', 'kmax': 10 if q else 12},
      {'shard': 'adic-rand', 'n': 1500 if q else 12000},
      {'shard': 'cf-div-sieve-tree', 'n': 1500 if q else 15000},
      {'shard': 'linalg-exh'},
      {'shard': 'stats', 'n': 400 if q else 3000},
  ]
  specs += [{'shard': 'sievehist-%d' % k, 'k': k} for k in range(4)]
  for i in range(4 if q else 10):
    specs.append({'shard': 'linalg-rand-%d' % i, 'n': 6000 if q else 40000})
  for i in range(12 if q else 16):
    specs.append({'shard': 'roots-%d' % i, 'n': 10 if q else 60, 'weight': 5})
  return specs


# ---------------------------------------------------------------- 2-adic

def _adic_case(ctx, ntu, n, k, brute):
  m = 1 << k
  # Inverse2exp
  ctx.count('evaluations')
  a = ntu.Inverse2exp(n, k)
  if n % 2 == 0:
    if a is not None and k >= 1:
      ctx.violation('inverse2exp-even-has-result', 'Inverse2exp(%d,%d)=%r' %
                    (n, k, a), {'n': n, 'k': k})
  else:
    ctx.distinct('inv', n, k)
    if a is None or (int(a) * n - 1) % m != 0:
      ctx.violation('inverse2exp-wrong', 'Inverse2exp(%d,%d)=%r' % (n, k, a),
                    {'n': n, 'k': k})
  # InverseSqrt2exp
  ctx.count('evaluations')
  s = ntu.InverseSqrt2exp(n, k)
  if brute:
    exists = any(x * x * n % m == 1 % m for x in range(m))
  else:
    exists = (n % 8 == 1) if k >= 3 else any(
        x * x * n % m == 1 % m for x in range(m))
  if s is None:
    if exists:
      ctx.violation('inversesqrt-missed', 'InverseSqrt2exp(%d,%d) is None but '
                    'a solution exists' % (n, k), {'n': n, 'k': k})
  else:
    ctx.distinct('isqrt', n, k)
    if (int(s) * int(s) * n - 1) % m != 0:
      ctx.violation('inversesqrt-wrong', 'InverseSqrt2exp(%d,%d)=%r' %
                    (n, k, s), {'n': n, 'k': k})
  # Sqrt2exp (odd n only, by contract)
  if n % 2 == 1:
    ctx.count('evaluations')
    roots = [int(r) for r in ntu.Sqrt2exp(n, k)]
    for r in roots:
      if (r * r - n) % m != 0 or not 0 <= r < max(m, 1):
        ctx.violation('sqrt2exp-wrong-root', 'Sqrt2exp(%d,%d) contains %d' %
                      (n, k, r), {'n': n, 'k': k})
    if brute:
      want = {x for x in range(m) if (x * x - n) % m == 0}
      if set(roots) != want:
        ctx.violation('sqrt2exp-root-set', 'Sqrt2exp(%d,%d)=%r, all roots=%r'
                      % (n, k, sorted(roots), sorted(want)), {'n': n, 'k': k})
      if want:
        ctx.distinct('sqrt', n, k)
        ctx.count('sqrt_with_roots')
    else:
      if k >= 3:
        if n % 8 == 1:
          ctx.distinct('sqrt', n % (1 << 64), k)
          if len(set(roots)) != 4:
            ctx.violation('sqrt2exp-not-four', 'Sqrt2exp(n,%d) has %d distinct'
                          ' roots' % (k, len(set(roots))), {'n': n, 'k': k})
        elif roots:
          ctx.violation('sqrt2exp-spurious', 'roots for n%%8=%d' % (n % 8),
                        {'n': n, 'k': k})


def run_adic_exh(ctx, spec):
  from paranoid_crypto.lib import ntheory_util as ntu
  for k in range(1, spec["kmax"] + 1):
    for n in range(0, 1 << k):
      if ctx.want('k%d/n%d' % (k, n)):
        _adic_case(ctx, ntu, n, k, True)
    # also arguments not reduced modulo 2^k
    r = ctx.rng('exh', k)
    for _ in range(20):
      n = r.bits(k + 1 + r.below(20))
      if ctx.want('k%d/big%d' % (k, n)):
        _adic_case(ctx, ntu, n, k, k <= 10)
  for n in (2, 4, 6, 100):
    ctx.count('evaluations')
    try:
      ntu.Sqrt2exp(n, 8)
      ctx.violation('sqrt2exp-even-accepted', 'Sqrt2exp(%d, 8) did not raise'
                    % n, {'n': n})
    except ValueError:
      ctx.count('sqrt_even_rejected')


def run_adic_rand(ctx, spec):
  from paranoid_crypto.lib import ntheory_util as ntu
  r = ctx.rng('adic')
  for i in range(spec['n']):
    bits = r.choice([1, 2, 3, 8, 63, 64, 65, 255, 256, 1024, 2048, 4096,
                     r.randint(1, 4096)])
    n = r.bits(bits)
    res = i % 8
    n = (n & ~7) | res if i % 3 else n
    k = r.choice([3, 4, 5, 7, 8, 13, 16, 31, 32, 33, 64, 65, 128, 1025,
                  r.randint(1, 4096)])
    if ctx.want('r%d' % i):
      _adic_case(ctx, ntu, n, k, False)
  try:
    ctx.sample({'helper': 'Sqrt2exp', 'n': n, 'k': k})
  except NameError:
    pass


# ------------------------------------- continued fractions, division, sieve

def run_cf(ctx, spec):
  from paranoid_crypto.lib import ntheory_util as ntu
  r = ctx.rng('cf')
  # ContinuedFraction
  for i in range(spec['n']):
    if not ctx.want('cf%d' % i):
      continue
    ab = r.choice([8, 16, 64, 512, 2048])
    a, b = r.bits(ab), r.bits(r.choice([8, 16, 64, 512, 2048]))
    if i % 17 == 0:
      a = b * r.randint(0, 9)
    if i < 400:
      a, b = i % 20, i // 20
    ctx.count('evaluations')
    res = ntu.ContinuedFraction(a, b)
    if b == 0:
      if res:
        ctx.violation('cf-zero-den', 'ContinuedFraction(%d, 0) = %r' % (a, res))
      continue
    ctx.distinct('cf', a, b)
    # definition: q_i = floor of the remaining fraction; convergents by the
    # standard recurrence h_i = q_i h_{i-1} + h_{i-2}.
    x = Fraction(a, b)
    h0, h1, k0, k1 = 0, 1, 1, 0
    qs = []
    y = x
    while True:
      q = y.numerator // y.denominator
      qs.append(q)
      h0, h1 = h1, q * h1 + h0
      k0, k1 = k1, q * k1 + k0
      idx = len(qs) - 1
      if idx >= len(res) or tuple(int(v) for v in res[idx]) != (q, h1, k1):
        ctx.violation('cf-convergent', 'ContinuedFraction(%d,%d)[%d] = %r, '
                      'definition %r' % (a, b, idx, res[idx] if idx < len(res)
                                         else None, (q, h1, k1)),
                      {'a': a, 'b': b})
        break
      y = y - q
      if y == 0:
        break
      y = 1 / y
    else:
      pass
    if len(res) != len(qs):
      ctx.violation('cf-length', 'ContinuedFraction(%d,%d) has %d terms, '
                    'definition %d' % (a, b, len(res), len(qs)),
                    {'a': a, 'b': b})
    elif Fraction(int(res[-1][1]), int(res[-1][2])) != x:
      ctx.violation('cf-last', 'last convergent != a/b', {'a': a, 'b': b})
  # DivmodRounded: exhaustive small + random
  def dm(a, b, tag):
    ctx.count('evaluations')
    q, rem = ntu.DivmodRounded(a, b)
    q, rem = int(q), int(rem)
    ctx.distinct('dm', a, b)
    if a != q * b + rem or 2 * abs(rem) > b:
      mech = 'divmodrounded-odd-divisor' if b % 2 else 'divmodrounded-wrong'
      ctx.violation(mech, 'DivmodRounded(%d,%d)=(%d,%d): not a rounded '
                    'division' % (a, b, q, rem), {'a': a, 'b': b})
  if ctx.want('dm-exh'):
    for b in range(1, 41):
      for a in range(-60, 61):
        dm(a, b, 'exh')
  for i in range(spec['n']):
    if ctx.want('dm%d' % i):
      b = r.bits(r.choice([3, 8, 64, 1024])) + 1
      if i % 3 == 0:
        b = 1 << r.randint(1, 1100)
      a = r.bits(r.choice([3, 8, 64, 2048])) * r.choice([1, -1])
      if i % 5 == 0:  # ties and near-ties
        a = b * r.randint(-5, 5) + b // 2 + r.randint(-1, 1)
      dm(a, b, 'rand')
  # Sieve
  def primes_below(n):
    return [p for p in range(2, n)
            if all(p % d for d in range(2, math.isqrt(p) + 1))]
  if ctx.want('sieve'):
    ref = primes_below(3001)
    for n in list(range(0, 3001)) + [5000, 7919, 7920, 10000]:
      ctx.count('evaluations')
      got = [int(v) for v in ntu.Sieve(n)]
      want = [p for p in ref if p < n] if n <= 3001 else primes_below(n)
      ctx.distinct('sieve', n)
      if got != want:
        ctx.violation('sieve-wrong', 'Sieve(%d) differs from trial division '
                      '(got %d primes, want %d)' % (n, len(got), len(want)),
                      {'n': n})
  # product trees
  import gmpy2
  for i in range(spec['n'] // 3):
    if not ctx.want('tree%d' % i):
      continue
    ln = i if i < 140 else r.randint(1, 400)
    vals = [r.bits(r.choice([2, 8, 64, 300])) + 1 for _ in range(ln)]
    ctx.count('evaluations')
    fp = ntu.FastProduct([gmpy2.mpz(v) for v in vals])
    P = math.prod(vals)
    if int(fp) != P:
      ctx.violation('fastproduct-wrong', 'FastProduct of %d values' % ln,
                    {'vals': vals[:10]})
    if ln == 0:
      continue
    ctx.distinct('tree', ln, vals[0])
    ctx.count('evaluations')
    tree, t = ntu.ExtendedProductTree([gmpy2.mpz(v) for v in vals])
    T = sum(P // v for v in vals)
    if int(t) != T:
      ctx.violation('exttree-T', 'ExtendedProductTree T != sum(P//v) for %d '
                    'values' % ln, {'vals': vals[:10], 'len': ln})
    ok = [int(v) for v in tree[0]] == vals and len(tree[-1]) == 1 and int(
        tree[-1][0]) == P
    for lo, hi in zip(tree, tree[1:]):
      want = [math.prod(int(v) for v in lo[j:j + 2])
              for j in range(0, len(lo), 2)]
      ok = ok and [int(v) for v in hi] == want
    if not ok:
      ctx.violation('exttree-levels', 'product tree level is not the pairwise '
                    'product of the level below (len %d)' % ln, {'len': ln})
  try:
    ctx.sample({'helper': 'ExtendedProductTree', 'values': vals[:4], 'len': ln})
  except NameError:
    pass


def run_sievehist(ctx, spec):
  """Sieve call histories from a fresh process: small then large, large then
  small, repeated (the result must be a function of the argument alone)."""
  from paranoid_crypto.lib import ntheory_util as ntu
  r = ctx.rng('sievehist')

  def primes_below(n):
    return [p for p in range(2, n)
            if all(p % d for d in range(2, math.isqrt(p) + 1))]
  seqs = {0: [10, 200, 1000, 5000, 10, 3, 10000, 200],
          1: [3, 30, 4, 1000, 31, 961, 962, 20000],
          2: [5000, 10, 200, 5001, 7, 12000],
          3: [2, 3, 4, 5, 26, 700, 701, 5, 15000]}
  seq = seqs[spec['k']] + [r.choice([3, 5, 10, 50, 97, 200, 1000, 2500, 7919])
                           for _ in range(6)]
  for i, n in enumerate(seq):
    if not ctx.want('call%d' % i):
      continue
    ctx.count('evaluations')
    ctx.count('sieve_history_calls')
    ctx.distinct('sievehist', spec['k'], i)
    got = [int(v) for v in ntu.Sieve(n)]
    want = primes_below(n)
    if got != want:
      bad = sorted(set(got) ^ set(want))[:5]
      ctx.violation('sieve-wrong-after-earlier-calls',
                    'Sieve(%d) after calls %r differs from trial division '
                    '(e.g. %r)' % (n, seq[:i], bad), {'n': n, 'history': seq})
      break
  for (a_, b_) in ((355, 113), (10 ** 30 + 7, 2 ** 70 + 1)):
    first = ntu.ContinuedFraction(a_, b_)
    ntu.ContinuedFraction(b_, a_ + 1)
    if ntu.ContinuedFraction(a_, b_) != first:
      ctx.violation('cf-not-a-function-of-its-arguments', '', None)
  ctx.sample({'helper': 'Sieve', 'call_history': seq})


# ------------------------------------------------------------------ linalg

class SpyList(list):
  moves = 0

  def insert(self, i, v):
    SpyList.moves += 1
    return list.insert(self, i, v)


def _rank_and_consistent(a, b):
  """Fraction Gaussian elimination on [a|b]: (rank a, consistent?)."""
  rows = [[Fraction(v) for v in r] + [Fraction(c)] for r, c in zip(a, b)]
  ncols = len(a[0])
  rank = 0
  for c in range(ncols):
    piv = next((i for i in range(rank, len(rows)) if rows[i][c] != 0), None)
    if piv is None:
      continue
    rows[rank], rows[piv] = rows[piv], rows[rank]
    pr = rows[rank]
    for i in range(len(rows)):
      if i != rank and rows[i][c] != 0:
        f = rows[i][c] / pr[c]
        rows[i] = [x - f * y for x, y in zip(rows[i], pr)]
    rank += 1
  consistent = all(any(v != 0 for v in r[:-1]) or r[-1] == 0 for r in rows)
  return rank, consistent


def _linalg_case(ctx, la, a, b, tag):
  ctx.count('evaluations')
  nrows, ncols = len(a), len(a[0])
  rank, consistent = _rank_and_consistent(a, b)
  SpyList.moves = 0
  a2 = SpyList([list(r) for r in a])
  b2 = SpyList(b)
  try:
    x = la.solve_right(a2, b2)
  except Exception as e:  # pylint: disable=broad-except
    ctx.violation('solve_right-exception:%s' % type(e).__name__,
                  'solve_right raised %r on %r %r' % (e, a, b),
                  {'a': a, 'b': b})
    return
  moved = SpyList.moves > 0
  if moved:
    ctx.count('row_moves_observed')
  if any(any(r) for r in a):
    ctx.distinct('la', a, b)
  if consistent:
    ctx.count('consistent_systems')
    if rank == ncols:
      ctx.count('fullrank_consistent')
      if x is not None:
        ctx.count('fullrank_consistent_solved')
  if x is None:
    ctx.count('none_results')
    return
  ctx.count('vectors_returned')
  if not consistent:
    ctx.count('vector_for_inconsistent_system')
    return
  xs = [Fraction(int(v.numerator), int(v.denominator)) for v in x]
  ok = len(xs) == ncols and all(
      sum(Fraction(r[j]) * xs[j] for j in range(ncols)) == c
      for r, c in zip(a, b))
  if not ok:
    ctx.violation('solve_right-nonsolution' + ('-after-row-move' if moved
                                               else ''),
                  'solve_right(%r, %r) = %r does not satisfy the system' %
                  (a, b, [str(v) for v in xs]), {'a': a, 'b': b})


def run_linalg_exh(ctx, spec):
  from paranoid_crypto.lib import linalg_util as la
  vals = (-2, -1, 0, 1, 2)
  for (nr, nc) in ((1, 1), (2, 1), (2, 2), (3, 1), (3, 2)):
    for ent in itertools.product(vals, repeat=nr * nc):
      a = [list(ent[i * nc:(i + 1) * nc]) for i in range(nr)]
      # consistent right-hand sides: images of small vectors, plus a few
      # arbitrary ones
      for xv in itertools.product((-1, 0, 2), repeat=nc):
        b = [sum(r[j] * xv[j] for j in range(nc)) for r in a]
        if ctx.want('exh'):
          _linalg_case(ctx, la, a, b, 'exh')
      if nr * nc <= 4:
        for b in itertools.product((0, 1), repeat=nr):
          _linalg_case(ctx, la, a, list(b), 'exh-b')
  try:
    ctx.sample({'helper': 'solve_right', 'a': a, 'b': b})
  except NameError:
    pass


def run_linalg_rand(ctx, spec):
  from paranoid_crypto.lib import linalg_util as la
  r = ctx.rng('la')
  for i in range(spec['n']):
    if not ctx.want('la%d' % i):
      continue
    nc = r.randint(1, 5)
    nr = r.randint(nc, 8)
    lim = r.choice([1, 2, 3, 9, 1000])
    a = [[r.randint(-lim, lim) for _ in range(nc)] for _ in range(nr)]
    kind = r.below(8)
    if kind == 0:    # zero rows
      for _ in range(r.randint(1, 2)):
        a[r.below(nr)] = [0] * nc
    elif kind == 1:  # dependent rows
      for _ in range(r.randint(1, 3)):
        s, d = r.below(nr), r.below(nr)
        f = r.randint(-2, 2)
        a[d] = [f * v for v in a[s]]
    elif kind == 2:  # zero pivots: leading zeros
      for j in range(min(nr, nc)):
        if r.chance(1, 2):
          a[j][j] = 0
    elif kind == 3:  # zero column prefix
      for row in a[:r.randint(1, nr)]:
        row[0] = 0
    elif kind == 4:  # sum of two rows
      if nr >= 3:
        a[nr - 1] = [x + y for x, y in zip(a[0], a[1])]
    if r.chance(5, 6):
      xv = [r.randint(-5, 5) for _ in range(nc)]
      if r.chance(1, 4):
        den = r.randint(1, 6)
        a = [[v * den for v in row] for row in a] if False else a
      b = [sum(row[j] * xv[j] for j in range(nc)) for row in a]
    else:
      b = [r.randint(-lim, lim) for _ in range(nr)]
    _linalg_case(ctx, la, a, b, 'rand')
  try:
    ctx.sample({'helper': 'solve_right', 'a': a, 'b': b})
  except NameError:
    pass
  # upper_triangular_solve on genuinely triangular systems
  for i in range(spec['n'] // 20):
    n = r.randint(1, 6)
    a = [[(r.randint(-9, 9) if j >= k else 0) for j in range(n)]
         for k in range(n)]
    b = [r.randint(-20, 20) for _ in range(n)]
    ctx.count('evaluations')
    x = la.upper_triangular_solve([list(v) for v in a], list(b))
    zero_diag = any(a[k][k] == 0 for k in range(n))
    if x is None:
      if not zero_diag:
        ctx.violation('uts-none', 'upper_triangular_solve returned None for a '
                      'non-singular triangular matrix', {'a': a, 'b': b})
      continue
    if zero_diag:
      ctx.violation('uts-singular', 'result for zero diagonal', {'a': a})
      continue
    xs = [Fraction(int(v.numerator), int(v.denominator)) for v in x]
    if any(sum(Fraction(a[k][j]) * xs[j] for j in range(n)) != b[k]
           for k in range(n)):
      ctx.violation('uts-nonsolution', 'upper_triangular_solve non-solution',
                    {'a': a, 'b': b})


# ------------------------------------------------------------------- stats

def _irwin_hall_exact(n, x):
  """Exact rational CDF of the sum of n uniform(0,1) variables."""
  if x <= 0:
    return Fraction(0)
  if x >= n:
    return Fraction(1)
  s = Fraction(0)
  for k in range(int(math.floor(x)) + 1):
    s += (-1) ** k * math.comb(n, k) * (x - k) ** n
  return s / math.factorial(n)


def run_stats(ctx, spec):
  import mpmath
  from paranoid_crypto.lib.randomness_tests import lattice_suite as ls
  from paranoid_crypto.lib.randomness_tests import util as ru
  mpmath.mp.dps = 40
  r = ctx.rng('stats')

  def close(got, want, abs_tol, rel_tol, mech, what, data):
    want = float(want)
    if not (isinstance(got, (int, float)) or hasattr(got, '__float__')):
      ctx.violation(mech, '%s returned %r' % (what, got), data)
      return
    got = float(got)
    if got != got or abs(got - want) > abs_tol + rel_tol * abs(want):
      ctx.violation(mech, '%s = %r, definition %r' % (what, got, want), data)

  # UniformSumCdf: every n <= 100 on a grid of x.
  for n in range(1, 101):
    for j in range(0, 41):
      x = Fraction(n * j, 40)
      if j in (13, 27):
        x += Fraction(r.below(1000), 1000 * 7)
      if not ctx.want('usc/%d/%d' % (n, j)):
        continue
      ctx.count('evaluations')
      ctx.distinct('usc', n, j)
      got = ru.UniformSumCdf(n, float(x))
      want = _irwin_hall_exact(n, x)
      if n <= 36:
        close(got, want, 1e-9, 1e-9, 'uniformsum-exact-branch',
              'UniformSumCdf(%d,%s)' % (n, float(x)), {'n': n, 'x': float(x)})
      else:
        # normal approximation: bounded by the Berry-Esseen-type error of the
        # Irwin-Hall distribution, < 0.01/n in absolute terms.
        close(got, want, 0.04 / n, 0, 'uniformsum-normal-branch',
              'UniformSumCdf(%d,%s)' % (n, float(x)), {'n': n, 'x': float(x)})
  # Bias by definition
  for i in range(spec['n']):
    if not ctx.want('bias%d' % i):
      continue
    nb = r.choice([8, 16, 64, 256])
    n = r.bits(nb) + 2
    sample = [r.below(n) for _ in range(r.randint(1, 12))]
    tr = [(r.below(n), r.below(n)) for _ in range(r.randint(1, 3))]
    if i % 4 == 0:   # biased sample
      sample = [r.below(max(2, n >> 6)) for _ in sample]
      tr = [(1, 0)]
    ctx.count('evaluations')
    ctx.distinct('bias', n, tuple(sample[:3]))
    t = Fraction(0)
    for s in sample:
      for a, b in tr:
        v = (a * s + b) % n
        t += min(v, n - v)
    cnt = len(sample) * len(tr)
    x = 2 * t / n
    got = ls.Bias(sample, n, tr)
    want = _irwin_hall_exact(cnt, x)
    if cnt <= 36:
      close(got, want, 2e-7, 1e-6, 'bias-statistic', 'Bias(...)',
            {'n': n, 'sample': sample, 'tr': tr})
    else:
      close(got, want, 0.04 / cnt, 0, 'bias-statistic', 'Bias(...)',
            {'n': n, 'sample': sample, 'tr': tr})
  # PseudoAverage: brute force over all 2^m shift choices, m <= 10.
  def pa_case(a, n, tag):
    ctx.count('evaluations')
    ctx.distinct('pa', n, tuple(a))
    got = int(ls.PseudoAverage(list(a), n))
    m = len(a)
    best, cands = None, set()
    for mask in range(1 << m):
      b = [a[i] + (n if mask >> i & 1 else 0) for i in range(m)]
      sb = sum(b)
      var = m * sum(v * v for v in b) - sb * sb   # m^2 * variance
      if best is None or var < best:
        best, cands = var, set()
      if var == best:
        cands.add((sb + m // 2) // m % n)
    if got not in cands:
      ctx.violation('pseudoaverage', 'PseudoAverage(%r, %d) = %d, minimal-'
                    'variance means %r' % (a, n, got, sorted(cands)),
                    {'a': a, 'n': n})
  if ctx.want('pa-exh'):
    for n in (2, 3, 5, 10):
      for m in range(1, 5 if n > 5 else 6):
        for a in itertools.product(range(n), repeat=m):
          pa_case(list(a), n, 'exh')
  for i in range(spec['n']):
    if ctx.want('pa%d' % i):
      n = r.choice([10, 16, 97, 256, 2**32, 2**64 + 13, r.bits(80) + 2])
      m = r.randint(1, 10)
      c = r.below(n)
      spread = r.choice([1, n // 50 + 1, n // 3 + 1, n])
      a = [(c + r.below(spread)) % n for _ in range(m)]
      pa_case(a, n, 'rand')
  # CombinedPValue (Fisher), Igamc, NormalCdf, BinomialCdf vs mpmath
  for i in range(spec['n']):
    if not ctx.want('fisher%d' % i):
      continue
    k = r.randint(1, 12)
    ps = [r.choice([1.0, 0.5, 1e-3, 1e-9, 1e-30, 1e-300,
                    (r.below(10**6) + 1) / 10**6]) for _ in range(k)]
    if i % 9 == 0:
      ps[r.below(k)] = 0.0
    ctx.count('evaluations')
    ctx.distinct('fisher', tuple(ps))
    got = ru.CombinedPValue(list(ps))
    if k == 1:
      want = ps[0]
    elif min(ps) == 0:
      want = 0.0
    else:
      s = -sum(mpmath.log(mpmath.mpf(p)) for p in ps)
      want = mpmath.gammainc(k, s, mpmath.inf, regularized=True)
    close(got, want, 1e-300, 1e-9, 'fisher-combination',
          'CombinedPValue(%r)' % ps, {'ps': ps})
  try:
    ru.CombinedPValue([])
    ctx.violation('fisher-empty', 'CombinedPValue([]) did not raise', None)
  except ValueError:
    ctx.count('fisher_empty_rejected')
  for i in range(spec['n']):
    if not ctx.want('special%d' % i):
      continue
    ctx.count('evaluations', 3)
    a = r.choice([0.5, 1, 1.5, 2, 3, 5, 16, 64, 500.5, r.randint(1, 4000) / 2])
    x = r.choice([0, 0.001, 0.5, 1, a, 2 * a, 10 * a, r.below(10**6) / 1000])
    want = mpmath.gammainc(a, x, mpmath.inf, regularized=True)
    close(ru.Igamc(a, x), want, 1e-290, 1e-8, 'igamc', 'Igamc(%r,%r)' % (a, x),
          {'a': a, 'x': x})
    mean, var = r.randint(-5, 5), r.choice([1, 0.25, 9, 1 / 12, 100])
    xx = mean + (r.below(2001) - 1000) / 100 * math.sqrt(var)
    want = mpmath.ncdf(xx, mean, mpmath.sqrt(var))
    close(ru.NormalCdf(xx, mean, var), want, 1e-15, 1e-9, 'normalcdf',
          'NormalCdf(%r,%r,%r)' % (xx, mean, var), {'x': xx})
    m = r.randint(1, 300)
    nn = r.randint(-1, m + 1)
    want = Fraction(sum(math.comb(m, j) for j in range(0, min(nn, m) + 1)),
                    2 ** m)
    close(ru.BinomialCdf(nn, m), want, 1e-15, 1e-9, 'binomialcdf',
          'BinomialCdf(%d,%d)' % (nn, m), {'n': nn, 'm': m})
    ctx.distinct('special', a, x, m, nn)
  try:
    ctx.sample({'helper': 'CombinedPValue', 'pvalues': ps})
  except NameError:
    pass


# ------------------------------------------------------------- small roots

def run_roots(ctx, spec):
  import sympy
  from paranoid_crypto.lib import small_roots
  r = ctx.rng('roots')
  x, x1, x2 = sympy.symbols('x x1 x2')
  for i in range(spec['n']):
    if not ctx.want('root%d' % i):
      continue
    pb = r.choice([128, 192, 256])
    p, q = r.prime(pb), r.prime(pb)
    n = p * q
    kind = r.below(5)
    ctx.count('evaluations')
    if kind in (0, 1):
      # univariate: p = p0 + root, |root| < 2^ub.  k = 3 handles ub up to
      # about 0.39*|p| (upstream test: 400 of 1024); planted at ratio
      # 0.5/0.8 of that limit, plus one beyond the limit (soundness only).
      ratio = r.choice([0.5, 0.8, 0.8, 1.5])
      ub = max(8, int(pb * 0.39 * ratio))
      root = r.bits(ub - 1) + 1
      sign = r.choice([1, -1])
      if kind == 0:
        p0 = p - sign * root
        f = sympy.Poly(p0 + sign * x, modulus=n)
        fz = lambda v: p0 + sign * v
      else:
        # low bits known: p = x*2^l + p0
        l = pb - ub
        p0 = p % (1 << l)
        root = p >> l
        f = sympy.Poly(x * 2 ** l + p0, modulus=n)
        fz = lambda v: v * 2 ** l + p0
      got = small_roots.univariate_modp(f, 2 ** ub)
      regime = 'uni/%s' % ('in' if ratio <= 0.8 else 'out')
      ctx.count('planted:' + regime)
      ctx.distinct('uni', n, ub)
      if got is not None:
        got = int(got)
        g = math.gcd(fz(got), n)
        if not (1 < g < n) or abs(got) >= 2 ** ub:
          ctx.violation('univariate-false-root', 'univariate_modp returned %d:'
                        ' gcd(f(r), n) = %d' % (got, g), {'n': n, 'p0': p0})
        else:
          ctx.count('found:' + regime)
    elif kind in (2, 3):
      # bivariate mod p: p = x1||known||x2; default m=4 handles 120+120 of
      # 1024 (0.117 each); planted at 0.5/0.8 of that.  Every other case asks
      # for a larger lattice (m = 5..8: "for larger bounds one can use a
      # larger value of m", documented limit n^0.207 for the product) with
      # a product of bounds of up to n^0.145 (m = 7, 8), which the default
      # lattice does not reach.
      ratio = r.choice([0.5, 0.8, 1.6])
      u = max(6, int(pb * 0.117 * ratio))
      mm = None
      if i % 2 == 1:
        mm = r.choice([5, 6, 7, 7, 8])
        # (measured reach on the unchanged tree, product of the bounds as a
        # power of n: m = 4, 5: 0.12; m = 6: 0.10 - its t rounds down to 1;
        # m = 7, 8: beyond 0.155.  Planted with margin inside each.)
        u = int(pb * {5: 0.11, 6: 0.09}.get(mm, r.choice([0.137, 0.145])))
        ratio = 0.8
      known = pb - 2 * u
      lx1 = known + u
      p0 = ((p >> u) % 2 ** known) << u
      f = sympy.Poly(p0 + x1 * 2 ** lx1 + x2, modulus=n)
      if mm is None:
        got = small_roots.multivariate_modp(f, [2 ** u, 2 ** u])
      else:
        got = small_roots.multivariate_modp(f, [2 ** u, 2 ** u], m=mm)
      regime = 'bi/%s' % ('in' if ratio <= 0.8 else 'out') if mm is None \
          else 'bi-m%d/in' % mm
      ctx.count('planted:' + regime)
      ctx.distinct('bi', n, u)
      if got is not None:
        r1, r2 = int(got[0]), int(got[1])
        g = math.gcd(p0 + r1 * 2 ** lx1 + r2, n)
        if not (1 < g < n) or abs(r1) >= 2 ** u or abs(r2) >= 2 ** u:
          ctx.violation('multivariate-modp-false-root', 'multivariate_modp '
                        'returned %r: gcd = %d' % (got, g), {'n': n, 'p0': p0})
        else:
          ctx.count('found:' + regime)
    else:
      # bivariate mod n: (p0+x1)(q0+x2) = 0 mod n; m=1 handles 340+340 of
      # 2048 (0.166 of |n| each); planted at 0.5/0.8.
      ratio = r.choice([0.5, 0.8, 1.4])
      u = max(6, int(2 * pb * 0.166 * ratio))
      p0 = (p >> u) << u
      q0 = (q >> u) << u
      f = sympy.Poly((p0 + x1) * (q0 + x2), modulus=n)
      got = small_roots.multivariate_modn(f, [2 ** u, 2 ** u])
      regime = 'modn/%s' % ('in' if ratio <= 0.8 else 'out')
      ctx.count('planted:' + regime)
      ctx.distinct('modn', n, u)
      if got is not None:
        r1, r2 = int(got[0]), int(got[1])
        if ((p0 + r1) * (q0 + r2)) % n != 0 or abs(r1) >= 2 ** u or abs(
            r2) >= 2 ** u:
          ctx.violation('multivariate-modn-false-root', 'multivariate_modn '
                        'returned %r: f(r) != 0 mod n' % (got,),
                        {'n': n, 'p0': p0, 'q0': q0})
        else:
          ctx.count('found:' + regime)
  try:
    ctx.sample({'helper': 'small_roots', 'n': n, 'regime': regime})
  except NameError:
    pass


def run(ctx, spec):
  from paranoid_crypto.lib import ntheory_util as ntu
  from paranoid_crypto.lib.randomness_tests import lattice_suite as ls
  from paranoid_crypto.lib.randomness_tests import util as ru
  from vp import contracts
  pm = contracts.PurityMonitor(ctx, keep=120)
  for f in ('Inverse2exp', 'InverseSqrt2exp', 'Sqrt2exp', 'ContinuedFraction',
            'DivmodRounded', 'Sieve', 'FastProduct'):
    pm.wrap(ntu, f)
  for f in ('UniformSumCdf', 'CombinedPValue', 'Igamc', 'NormalCdf',
            'BinomialCdf'):
    pm.wrap(ru, f)
  for f in ('Bias', 'PseudoAverage'):
    pm.wrap(ls, f)
  try:
    _run(ctx, spec)
    pm.recheck()
  finally:
    pm.restore()


def _run(ctx, spec):
  s = spec['shard']
  if s == 'adic-exh':
    run_adic_exh(ctx, spec)
  elif s == 'adic-rand':
    run_adic_rand(ctx, spec)
  elif s.startswith('cf-'):
    run_cf(ctx, spec)
  elif s.startswith('sievehist'):
    run_sievehist(ctx, spec)
  elif s == 'linalg-exh':
    run_linalg_exh(ctx, spec)
  elif s.startswith('linalg-rand'):
    run_linalg_rand(ctx, spec)
  elif s == 'stats':
    run_stats(ctx, spec)
  elif s.startswith('roots'):
    run_roots(ctx, spec)


def finalize(agg, tier):
  from vp import rates
  c = agg['counters']
  viol, inc = [], []
  for k in ('sqrt_with_roots', 'row_moves_observed', 'vectors_returned',
            'sieve_history_calls',
            'fullrank_consistent_solved', 'found:uni/in', 'found:bi/in',
            'found:modn/in', 'found:bi-m7/in'):
    if not c.get(k):
      inc.append('reach counter %s is zero' % k)
  # planted small roots: enforced regimes are the in-margin ratios
  for regime in sorted(k[8:] for k in c if k.startswith('planted:')):
    n, found = c['planted:' + regime], c.get('found:' + regime, 0)
    if regime.endswith('/in'):
      v = rates.check_min_rate('C19', 'smallroots-missed/' + regime, found, n,
                               p_min=0.9)
      if v:
        viol.append(v)
  return viol, inc
