"""C01 - every factor reported for an RSA modulus really divides it.
Boundary observer on the protobufs + contracts on every factoring helper and
on util.AttachFactors, under mixed/degenerate batches and hostile constructor
parameters."""
from vp import contracts
from vp import observe
from vp import workloads

ID = 'C01'
RULE = ('one evaluation = one (check, key) pair after a real Check call on a '
        'mixed batch: every value in N_FACTORS must divide n, in N-1_FACTORS '
        'n-1, the key must be weak with a positive entry, and a non-trivial '
        'divisor must be present unless n divides another modulus of the '
        'batch; distinct by (check, modulus); non-trivial = a factor record '
        'was attached')
ASSUMPTIONS = ['one division per recorded value is the oracle',
               'moduli below 2^63 are outside the property',
               'max_steps large enough to reach the trivial Fermat '
               'representation of a prime cannot be executed']
EXHAUSTIVE_SUBSPACES = []


def plan(tier, seed):
  q = tier == 'quick'
  return [{'shard': 'mixed-%d' % i, 'batches': 5 if q else 40,
           'slow': 1 if q else 6, 'weight': 3} for i in range(16)]


def _helper_post(nidx=0):
  def post(res, *a, **kw):
    n = int(a[nidx])
    fac = res
    weak = None
    if isinstance(res, tuple) and len(res) == 2 and isinstance(res[0], bool):
      weak, fac = res          # (weak/ok, factors)
    if not fac:
      return None
    vals = [int(v) for v in fac]
    if any(v <= 0 or n % v for v in vals):
      return 'returned %r which contains a non-divisor of n' % (vals,)
    if len(vals) == 2 and vals[0] * vals[1] != n:
      return 'returned pair %r whose product is not n' % (vals,)
    return None
  return post


HELPERS = [('rsa_util', 'FermatFactor'), ('rsa_util', 'FactorHighAndLowBitsEqual'),
           ('rsa_util', 'CheckContinuedFraction'), ('rsa_util', 'CheckFraction'),
           ('rsa_util', 'CheckSmallUpperDifferences'), ('rsa_util', 'Pollardpm1'),
           ('rsa_util', 'CheckLowHammingWeight'),
           ('special_case_factoring', 'FactorWithGuess')]


def run(ctx, spec):
  import importlib
  from paranoid_crypto.lib import paranoid
  from paranoid_crypto.lib import rsa_aggregate_checks as ra
  from paranoid_crypto.lib import rsa_single_checks as rs
  from paranoid_crypto.lib import util
  rng = ctx.rng('mixed')
  mons = []
  for modname, fn in HELPERS:
    mod = importlib.import_module('paranoid_crypto.lib.' + modname)
    mons.append(contracts.monitor(ctx, mod, fn, _helper_post(), label=fn))
  # Pollardpm1 with a 2-argument positional call: n is args[0] as well.
  state = {'check': None, 'keys': {}}

  orig_attach = util.AttachFactors

  def attach(test_info, info_name, factors):
    factors = list(factors)
    ctx.count('contract:AttachFactors')
    n = state['keys'].get(id(test_info))
    if n is not None:
      tgt = n if info_name == 'N_FACTORS' else n - 1
      bad = [int(f) for f in factors if int(f) <= 0 or tgt % int(f)]
      if bad:
        ctx.violation('attachfactors-non-divisor@%s' % state['check'],
                      '%s attached %r to %s of a key but it does not divide' %
                      (state['check'], bad, info_name),
                      {'n': n, 'factors': factors, 'check': state['check']})
    return orig_attach(test_info, info_name, factors)

  util.AttachFactors = attach
  try:
    singles = dict(paranoid.GetRSAAllChecks())
    for b in range(spec['batches']):
      if not ctx.want('batch%d' % b):
        continue
      if b > 4 and ctx.spent(0.5):
        break
      rng = ctx.rng('mixed', b)   # per batch, so that --replay regenerates it
      size = rng.choice([1, 2, 3, 5, 8, 13, 25, 40])
      if ctx.tier == 'quick':
        size = min(size, 13)
      arts = workloads.rsa_mixed_batch(rng, size, slow_budget=spec['slow'] if
                                       b % 2 == 0 else 0)
      if b == 0:
        # every shard contributes the two families that are expensive to make
        arts.append(workloads.rsa_artifact(rng, 'lhw'))
        # the genuine covered key first, then a modulus that shares its 64
        # leading bits (same check objects, same batch and later batches)
        kc = workloads.rsa_artifact(rng, 'keypair-collision')
        arts.append(kc['genuine'])
        arts.append({k: v for k, v in kc.items() if k != 'genuine'})
        while True:
          a = workloads.rsa_artifact(rng, 'smooth')
          if (a['q'] - 1) % 65537 or True:
            arts.append(a)
            break
      ns = [a['n'] for a in arts]
      hostile = {
          'CheckFermat': rs.CheckFermat(max_steps=rng.choice(
              [0, 1, 2, 1000, 10 ** 6])),
          'CheckBitPatterns': rs.CheckBitPatterns(pattern_sizes=rng.choice(
              [[], [1], [2], [512], [rng.randint(1, 300) for _ in range(4)]])),
          'CheckContinuedFractions': rs.CheckContinuedFractions(
              bound=rng.choice([1, 2, 2 ** 16, 2 ** 48, 2 ** 200])),
          'CheckPollardpm1': rs.CheckPollardpm1(bound=rng.choice(
              [2, 3, 100, 2 ** 16])),
          'CheckGCDN1': ra.CheckGCDN1(gcd_bound=rng.choice([1, 2, 2 ** 64])),
      }
      runs = [(name, chk, 'registry') for name, chk in singles.items()]
      runs += [(name, chk, 'hostile') for name, chk in hostile.items()]
      for name, chk, origin in runs:
        keys = workloads.rsa_keys(arts, pad=rng.choice([0, 0, 1]))
        state['check'] = '%s(%s)' % (name, origin)
        state['keys'] = {id(k.test_info): n for k, n in zip(keys, ns)}
        try:
          chk.Check(keys)
        except Exception as e:  # pylint: disable=broad-except
          ctx.count('evaluations')
          ctx.violation('check-raised-%s@%s' % (type(e).__name__, name),
                        '%s raised %r on a batch of %d' % (name, e, len(ns)),
                        {'ns': ns, 'check': name})
          continue
        _judge(ctx, name, origin, keys, arts)
      # the same protos judged again with stronger parameters / in a larger
      # batch: an entry that turns positive must carry the weak flag with it
      keys = workloads.rsa_keys(arts)
      state['check'] = 'escalation'
      state['keys'] = {id(k.test_info): n for k, n in zip(keys, ns)}
      try:
        for name, chk in hostile.items():
          chk.Check(keys)
        for k in keys:
          singles['CheckGCD'].Check([k])
        for name in list(hostile) + ['CheckGCD']:
          singles[name].Check(keys)
        ctx.count('escalation_passes')
        _judge(ctx, 'escalation', 'same-protos', keys, arts)
      except Exception as e:  # pylint: disable=broad-except
        ctx.violation('check-raised-%s@escalation' % type(e).__name__,
                      repr(e), {'ns': ns})
      # and once through the entry point (all checks accumulate on one key)
      keys = workloads.rsa_keys(arts)
      state['check'] = 'CheckAllRSA'
      state['keys'] = {id(k.test_info): n for k, n in zip(keys, ns)}
      try:
        paranoid.CheckAllRSA(keys)
        _judge(ctx, 'CheckAllRSA', 'entry', keys, arts)
      except Exception as e:  # pylint: disable=broad-except
        ctx.violation('check-raised-%s@CheckAllRSA' % type(e).__name__,
                      repr(e), {'ns': ns})
      ctx.sample({'batch_kinds': [a['kind'] for a in arts][:12],
                  'first_modulus': ns[0]})
  finally:
    util.AttachFactors = orig_attach
    for m in mons:
      m.restore()


def _judge(ctx, name, origin, keys, arts):
  ns = [a['n'] for a in arts]
  for key, a in zip(keys, arts):
    n = a['n']
    ctx.count('evaluations')
    snap = observe.snapshot(key.test_info)
    info = observe.info_dict(snap)
    ents = observe.entries_dict(snap)
    nf = observe.factor_set(info.get('N_FACTORS'))
    n1 = observe.factor_set(info.get('N-1_FACTORS'))
    if nf is None and n1 is None:
      continue
    ctx.count('factor_records')
    ctx.count('attached_by:' + name)
    ctx.distinct(name, origin, n)
    data = {'n': n, 'kind': a['kind'], 'check': name, 'origin': origin}
    if nf == 'UNPARSABLE' or n1 == 'UNPARSABLE':
      ctx.violation('factor-record-unparsable@%s' % name, repr(info), data)
      continue
    for f in nf or ():
      if f <= 0 or n % f:
        ctx.violation('recorded-factor-does-not-divide@%s' % name,
                      '%s recorded %x for a %s modulus: not a divisor' %
                      (name, f, a['kind']), data)
    for f in n1 or ():
      if f <= 0 or (n - 1) % f:
        ctx.violation('recorded-n1-factor-does-not-divide@%s' % name,
                      '%s recorded %x in N-1_FACTORS: not a divisor of n-1' %
                      (name, f), data)
    if not snap['weak']:
      ctx.violation('factors-without-weak-flag@%s' % name,
                    'factor record present but key not marked weak', data)
    if name not in ('CheckAllRSA', 'escalation') and not ents.get(
        name, (False,))[0]:
      ctx.violation('factors-without-positive-entry@%s' % name,
                    'factor record present but the check\'s entry is not true',
                    data)
    if nf and not any(1 < f < n for f in nf):
      nested = any(m != n and m % n == 0 for m in ns)
      ctx.count('trivial_factor_records')
      if not nested:
        ctx.violation('only-trivial-factors@%s' % name,
                      '%s recorded only %r for a %s modulus that divides no '
                      'other modulus of the batch' % (name, sorted(nf),
                                                      a['kind']), data)


def finalize(agg, tier):
  c = agg['counters']
  need = ['contract:AttachFactors', 'factor_records', 'trivial_factor_records',
          'escalation_passes']
  need += ['contract:' + fn for _, fn in HELPERS]
  need += ['attached_by:' + k for k in (
      'CheckFermat', 'CheckHighAndLowBitsEqual', 'CheckContinuedFractions',
      'CheckBitPatterns', 'CheckPermutedBitPatterns', 'CheckPollardpm1',
      'CheckLowHammingWeight', 'CheckUnseededRand',
      'CheckSmallUpperDifferences', 'CheckKeypairDenylist', 'CheckGCD',
      'CheckGCDN1')]
  inc = ['reach counter %s is zero' % k for k in need if not c.get(k)]
  for k in need:
    if k.startswith('attached_by:') and 0 < c.get(k, 0) < 5:
      inc.append('%s attached factors only %d times' % (k[12:], c[k]))
  return [], inc
