"""C07 - healthy keys and signatures are never accused.  Generator-side ground
truth (healthy by construction from a cryptographic stream) + boundary
observer; healthy artifacts are judged alone and mixed with weak neighbours."""
from vp import gen
from vp import observe
from vp import rsagen
from vp import sigs
from vp import workloads

ID = 'C07'
RULE = ('one evaluation = one healthy artifact (RSA key from two independent '
        'uniform primes with e = 65537, EC key with uniform private key, ECDSA '
        'signature with uniform nonce) after an all-checks entry point, alone '
        'in healthy batches or mixed with weak neighbours; distinct by '
        'artifact; every healthy artifact is a non-trivial case (the claim is '
        'about them)')
ASSUMPTIONS = ['SHAKE-256 stream as the cryptographic generator',
               'the design false-positive rate (<= 2^-37 per key) is far below '
               'what a run can measure: the claim is "no accusation in K '
               'artifacts"', 'CheckECKeySmallDifference: max_diff = 2^8 in the '
               'quick tier (2^14 thorough)']
EXHAUSTIVE_SUBSPACES = []


def plan(tier, seed):
  q = tier == 'quick'
  # (a healthy key costs 1-3 s: two prime searches plus the whole registry)
  specs = [{'shard': 'rsa-%d' % i, 'keys': 70 if q else 600, 'weight': 6,
            'timeout': 1500 if q else 3600} for i in range(12)]
  specs += [{'shard': 'rsamixed-%d' % i, 'batches': 3 if q else 40,
             'weight': 4} for i in range(4)]
  for i, c in enumerate(gen.STRONG):
    specs.append({'shard': 'ec-' + c, 'curve': c, 'keys': 50 if q else 1000,
                  'maxdiff': 2 ** 8 if q else 2 ** 14, 'weight': 5})
  for i, c in enumerate(gen.STRONG):
    specs.append({'shard': 'ecdsa-' + c, 'curve': c,
                  'sizes': [1, 2, 7, 16] if q else [1, 3, 25, 49, 60],
                  'weight': 9 if '521' in c or '512' in c else 6,
                  'timeout': 2400})
  if not q:
    for c in ('CURVE_SECP256R1', 'CURVE_SECP256K1', 'CURVE_SECP384R1'):
      specs.append({'shard': 'ecdsabig-' + c, 'curve': c,
                    'sizes': [121, 130, 200], 'weight': 30, 'timeout': 6000})
  specs += [{'shard': 'ecdsamixed-%d' % i, 'batches': 2 if q else 12,
             'weight': 6} for i in range(3)]
  allsizes = [s_ + d for s_ in range(32, 289, 32) for d in (-1, 0, 1, 2)] + [
      140, 150, 200, 300, 400, 520]
  for i in range(2 if q else 4):
    specs.append({'shard': 'rsaagg-%d' % i, 'max': 520,
                  'sizes': allsizes[i::2 if q else 4], 'weight': 4})
  for fam in ('rsa', 'ec', 'ecdsa'):
    for i in range(1 if q else 4):
      specs.append({'shard': 'resubmit-%s-%d' % (fam, i), 'family': fam,
                    'weight': 7})
  return specs


def _accused(ctx, art, what, data):
  """Records an accusation of a healthy artifact."""
  snap = observe.snapshot(art.test_info)
  pos = [n for n, r, _ in snap['entries'] if r]
  if snap['weak'] or pos:
    ctx.violation('healthy-artifact-accused@%s' % '+'.join(sorted(pos) or
                                                           ['weak-flag-only']),
                  '%s accused by %r (weak=%s)' % (what, pos, snap['weak']),
                  data)
    return True
  return False


def run_rsa(ctx, spec):
  from paranoid_crypto.lib import paranoid
  rng = ctx.rng('rsa')
  left = spec['keys']
  sizes = [1, 2, 5, 17, 40, 200]
  bi = 0
  while left > 0 and not ctx.spent():
    size = min(left, sizes[bi % len(sizes)])
    bi += 1
    if ctx.tier == 'quick':
      size = min(size, 40)
    left -= size
    if not ctx.want('batch%d' % bi):
      continue
    mods = [rsagen.healthy(rng, rng.choice([2048, 2048, 3072, 4096])
                           if ctx.tier != 'quick' else rng.choice(
                               [2048, 2048, 2048, 3072, 4096]))
            for _ in range(size)]
    # field encodings with and without leading zero bytes (big-endian
    # integers: the padding is insignificant)
    keys = [gen.rsa_key(n, pad=rng.choice([0, 0, 1, 5])) for n, _, _ in mods]
    ctx.count('padded_field_encodings', sum(
        1 for k in keys if k.rsa_info.e[:1] == b'\x00'))
    ret = paranoid.CheckAllRSA(keys)
    ctx.count('healthy_batches')
    for (n, p, q), k in zip(mods, keys):
      ctx.count('evaluations')
      ctx.count('healthy_rsa_keys')
      ctx.distinct('rsa', n)
      _accused(ctx, k, 'healthy %d-bit RSA key' % n.bit_length(), {'n': n})
      if len(k.test_info.test_results) != 17:
        ctx.violation('healthy-key-entry-count', '%d entries' % len(
            k.test_info.test_results), {'n': n})
    if ret is not False:
      ctx.violation('entry-point-true-for-healthy-batch@CheckAllRSA',
                    'returned %r for %d healthy keys' % (ret, size),
                    {'ns': [m[0] for m in mods][:5]})
    ctx.sample({'family': 'rsa', 'batch_size': size, 'n': mods[0][0]})


def run_rsamixed(ctx, spec):
  from paranoid_crypto.lib import paranoid
  rng = ctx.rng('rsamixed')
  for b in range(spec['batches']):
    if not ctx.want('b%d' % b):
      continue
    weak = workloads.rsa_mixed_batch(rng, rng.choice([3, 6, 10]),
                                     slow_budget=1 if b == 0 else 0,
                                     with_healthy=False)
    healthy = [rsagen.healthy(rng, rng.choice([2048, 3072]))
               for _ in range(rng.randint(2, 6))]
    arts = [('w', a['n'], a['e']) for a in weak] + [('h', n, 65537)
                                                    for n, _, _ in healthy]
    rng.shuffle(arts)
    keys = [gen.rsa_key(n, e) for _, n, e in arts]
    paranoid.CheckAllRSA(keys)
    ctx.count('mixed_batches')
    for (t, n, e), k in zip(arts, keys):
      if t == 'h':
        ctx.count('evaluations')
        ctx.count('healthy_rsa_keys_with_weak_neighbours')
        ctx.distinct('rsamixed', n)
        _accused(ctx, k, 'healthy RSA key next to %r' % sorted(
            {a['kind'] for a in weak}), {'n': n})
    ctx.sample({'family': 'rsa-mixed', 'weak_kinds': [a['kind'] for a in weak]})


def run_ec(ctx, spec):
  from paranoid_crypto.lib import paranoid
  workloads.install_small_maxdiff(spec['maxdiff'])
  rng = ctx.rng('ec')
  curve = spec['curve']
  n = gen.model_curve(curve).n
  left = spec['keys']
  bi = 0
  while left > 0:
    size = min(left, [1, 2, 9, 30, 100][bi % 5])
    bi += 1
    left -= size
    if not ctx.want('batch%d' % bi):
      continue
    ds = [rng.below(n - 1) + 1 for _ in range(size)]
    keys = [gen.ec_key(curve, *sigs.mulg(curve, d), pad=rng.choice([0, 0, 2]))
            for d in ds]
    mixed = bi % 3 == 0
    extra = []
    if mixed:
      # weak neighbours: structured key, close pair, invalid point, other curve
      base = rng.below(n - 1000) + 1
      dupd = (rng.bits(32) | 1) << 24
      extra = [gen.ec_key_from_priv(curve, dupd),
               gen.ec_key_from_priv(curve, dupd),     # the same key twice
               gen.ec_key_from_priv(curve, (rng.bits(32) | 1) << 8),
               gen.ec_key_from_priv(curve, base),
               gen.ec_key_from_priv(curve, base + 7),
               workloads.ec_hostile_key(rng, gen.curve_id(curve), 'offcurve')[0],
               gen.ec_key('CURVE_SECP192R1', *sigs.mulg('CURVE_SECP192R1', 5)),
               # same coordinates as a healthy key, on another curve
               gen.ec_key([c for c in gen.STRONG if c != curve][0],
                          int.from_bytes(keys[0].ec_info.x, 'big'),
                          int.from_bytes(keys[0].ec_info.y, 'big'))]
    batch = keys + extra
    order = list(range(len(batch)))
    rng.shuffle(order)
    if mixed:
      # duplicates first, healthy keys directly in front of the close pair
      k0 = len(keys)
      order = [k0, k0 + 1] + list(range(k0)) + [k0 + 3, k0 + 4, k0 + 2] + list(
          range(k0 + 5, len(batch)))
    ret = paranoid.CheckAllEC([batch[i] for i in order])
    if mixed:
      # the same artifacts once more, fresh and in random order
      again = [type(b)().FromString(b.SerializeToString()) for b in batch]
      for b in again:
        b.ClearField('test_info')
      rng.shuffle(again)
      paranoid.CheckAllEC(again)
      for b in again:
        for d, k in zip(ds, keys):
          if b.ec_info == k.ec_info and b.ec_info.curve_type == gen.curve_id(
              curve) and (b.test_info.weak and not k.test_info.weak):
            k.test_info.CopyFrom(b.test_info)
    ctx.count('mixed_batches' if mixed else 'healthy_batches')
    for d, k in zip(ds, keys):
      ctx.count('evaluations')
      ctx.count('healthy_ec_keys')
      ctx.distinct('ec', curve, d)
      _accused(ctx, k, 'healthy %s key%s' % (
          curve, ' with weak neighbours' if mixed else ''),
               {'curve': curve, 'd': d})
      if len(k.test_info.test_results) != 4:
        ctx.violation('healthy-key-entry-count', '%d entries' % len(
            k.test_info.test_results), {'curve': curve})
    if not mixed and ret is not False:
      ctx.violation('entry-point-true-for-healthy-batch@CheckAllEC',
                    'returned %r' % (ret,), {'curve': curve})
    ctx.sample({'family': 'ec', 'curve': curve, 'batch': size, 'd': ds[0]})


def run_ecdsa(ctx, spec):
  from paranoid_crypto.lib import paranoid
  workloads.install_small_maxdiff(2 ** 8)
  rng = ctx.rng('ecdsa')
  curve = spec['curve']
  n = gen.model_curve(curve).n
  for size in spec['sizes']:
    if not ctx.want('size%d' % size):
      continue
    d, pub = sigs.issuer(rng, curve)
    arts = sigs.sign_many(rng, curve, d, pub, sigs.nonces_uniform(rng, n, size))
    if size >= 7:
      d2, pub2 = sigs.issuer(rng, curve)
      arts += sigs.sign_many(rng, curve, d2, pub2, sigs.nonces_uniform(
          rng, n, 2), hlen=rng.choice([20, 64]))
    rng.shuffle(arts)
    ret = paranoid.CheckAllECDSASigs(arts)
    ctx.count('healthy_batches')
    for a in arts:
      ctx.count('evaluations')
      ctx.count('healthy_signatures')
      ctx.distinct('ecdsa', curve, a.ecdsa_sig_info.r)
      _accused(ctx, a, 'healthy %s signature (batch of %d)' % (curve, len(arts)),
               {'curve': curve, 'd': d})
      if len(a.test_info.test_results) != 8:
        ctx.violation('healthy-signature-entry-count', '%d entries' % len(
            a.test_info.test_results), {'curve': curve})
    if ret is not False:
      ctx.violation('entry-point-true-for-healthy-batch@CheckAllECDSASigs',
                    'returned %r for %d healthy signatures' % (ret, len(arts)),
                    {'curve': curve})
    ctx.sample({'family': 'ecdsa', 'curve': curve, 'signatures': len(arts)})


def run_ecdsamixed(ctx, spec):
  from paranoid_crypto.lib import paranoid
  workloads.install_small_maxdiff(2 ** 8)
  rng = ctx.rng('ecdsamixed')
  for b in range(spec['batches']):
    if not ctx.want('b%d' % b):
      continue
    curve = rng.choice(['CURVE_SECP256R1', 'CURVE_SECP256K1',
                        'CURVE_BRAINPOOLP256R1', 'CURVE_SECP224R1'])
    n = gen.model_curve(curve).n
    d, pub = sigs.issuer(rng, curve)
    healthy = sigs.sign_many(rng, curve, d, pub, sigs.nonces_uniform(
        rng, n, rng.randint(1, 6)))
    dW, pubW = sigs.issuer(rng, curve)
    kind = rng.choice(['msb', 'prefix', 'postfix', 'u2f', 'gmp'])
    if b == 0:
      # first batch of every shard: the weak issuer sits on the first curve
      # of the registry and honest issuers on later curves share the batch
      # (whatever is kept per curve must not be read on the next curve)
      kind = ['u2f', 'msb', 'gmp'][int(spec['shard'][-1]) % 3]
      curve = 'CURVE_SECP256R1'
      n = gen.model_curve(curve).n
      d, pub = sigs.issuer(rng, curve)
      healthy = sigs.sign_many(rng, curve, d, pub, sigs.nonces_uniform(
          rng, n, 2))
      dW, pubW = sigs.issuer(rng, curve)
    if kind == 'u2f':
      ks = sigs.nonces_u2f(rng, n, 2)
    elif kind == 'gmp':
      ks = sigs.nonces_gmp(rng, n, 64, 6)
    else:
      ks = {'msb': sigs.nonces_msb, 'prefix': sigs.nonces_prefix,
            'postfix': sigs.nonces_postfix}[kind](rng, n, 64, 14)
    weak = sigs.sign_many(rng, curve, dW, pubW, ks)
    # weak-issuer-key neighbour and same coordinates on another curve
    dK, pubK = sigs.issuer(rng, curve, (rng.bits(32) | 1) << 16)
    weak += sigs.sign_many(rng, curve, dK, pubK, sigs.nonces_uniform(rng, n, 1))
    other = rng.choice([c for c in gen.STRONG if c != curve])
    no = gen.model_curve(other).n
    weak.append(gen.ecdsa_sig(other, rng.below(no - 1) + 1,
                              rng.below(no - 1) + 1, gen.msg_hash(rng), pub))
    batch = [('h', a) for a in healthy] + [('w', a) for a in weak]
    rng.shuffle(batch)
    if b == 0:
      batch = [('w', a) for a in weak] + [('h', a) for a in healthy]
      for oc in rng.sample([c for c in gen.STRONG if c != curve], 3):
        do, pubo = sigs.issuer(rng, oc)
        batch += [('h', a) for a in sigs.sign_many(
            rng, oc, do, pubo, sigs.nonces_uniform(
                rng, gen.model_curve(oc).n, len(weak) + 1))]
      ctx.count('weak_first_curve_batches')
    paranoid.CheckAllECDSASigs([a for _, a in batch])
    ctx.count('mixed_batches')
    for t, a in batch:
      if t == 'h':
        ctx.count('evaluations')
        ctx.count('healthy_signatures_with_weak_neighbours')
        ctx.distinct('ecdsamixed', curve, a.ecdsa_sig_info.r)
        _accused(ctx, a, 'healthy %s signature next to %s-biased issuer, a '
                 'weak-key issuer and its own coordinates on %s' % (
                     curve, kind, other), {'curve': curve, 'kind': kind})
    ctx.sample({'family': 'ecdsa-mixed', 'curve': curve, 'weak_kind': kind})


def run_rsaagg(ctx, spec):
  """Large healthy-only batches through the jointly judging RSA checks (the
  per-key checks do not look at neighbours): batch sizes around every multiple
  of 32 up to 260 and a few beyond."""
  from paranoid_crypto.lib import paranoid
  rng = ctx.rng('rsaagg')
  checks = dict(paranoid.GetRSAAllChecks())
  pool = [rng.prime(256) * rng.prime(256) for _ in range(spec['max'])]
  for size in spec['sizes']:
    if not ctx.want('size%d' % size):
      continue
    ns = rng.sample(pool, size)
    for name in ('CheckGCD', 'CheckGCDN1'):
      keys = [gen.rsa_key(n, pad=rng.choice([0, 0, 1])) for n in ns]
      ret = checks[name].Check(keys)
      ctx.count('large_healthy_aggregate_batches')
      bad = [i for i, k in enumerate(keys) if k.test_info.weak or any(
          e.result for e in k.test_info.test_results)]
      ctx.count('evaluations', len(keys))
      ctx.distinct('rsaagg', name, size)
      if bad or ret is not False:
        ctx.violation('healthy-artifact-accused@%s' % name,
                      '%s on %d healthy moduli: returned %r, accused '
                      'positions %r' % (name, size, ret, bad[:8]),
                      {'size': size, 'check': name})
  ctx.sample({'family': 'rsa-aggregate', 'sizes': spec['sizes']})


def run_resubmit(ctx, spec):
  """The same healthy artifacts submitted again and again through the entry
  point (fresh protos each time): alone, reversed with weak neighbours, one by
  one, twice in one batch, alone again.  Whatever a check remembers between
  calls must not turn against an artifact it has seen before."""
  from paranoid_crypto.lib import paranoid
  fam = spec['family']
  rng = ctx.rng('resubmit')
  if fam == 'rsa':
    entry = paranoid.CheckAllRSA
    pool = [gen.rsa_key(rsagen.healthy(rng, b)[0]) for b in (2048, 2048, 3072)]
    weak = workloads.rsa_keys(workloads.rsa_mixed_batch(
        rng, 3, slow_budget=0, with_healthy=False))
  elif fam == 'ec':
    workloads.install_small_maxdiff(2 ** 8)
    entry = paranoid.CheckAllEC
    curve = rng.choice(gen.STRONG)
    n = gen.model_curve(curve).n
    pool = [gen.ec_key_from_priv(curve, rng.below(n - 1) + 1) for _ in range(5)]
    base = rng.below(n - 1000) + 1
    weak = [gen.ec_key_from_priv(curve, (rng.bits(32) | 1) << 16),
            gen.ec_key_from_priv(curve, base),
            gen.ec_key_from_priv(curve, base + 3)]
  else:
    workloads.install_small_maxdiff(2 ** 8)
    entry = paranoid.CheckAllECDSASigs
    curve = rng.choice(['CURVE_SECP256R1', 'CURVE_SECP256K1',
                        'CURVE_SECP384R1'])
    n = gen.model_curve(curve).n
    pool = []
    for _ in range(2):
      d, pub = sigs.issuer(rng, curve)
      pool += sigs.sign_many(rng, curve, d, pub, sigs.nonces_uniform(rng, n, 3))
    dW, pubW = sigs.issuer(rng, curve)
    weak = sigs.sign_many(rng, curve, dW, pubW, sigs.nonces_msb(rng, n, 64, 12))

  def fresh(a):
    b = type(a)().FromString(a.SerializeToString())
    b.ClearField('test_info')
    return b

  rounds = [('alone', lambda: [[fresh(a) for a in pool]]),
            ('reversed+weak', lambda: [[fresh(a) for a in reversed(pool)] +
                                       [fresh(w) for w in weak]]),
            ('one-by-one', lambda: [[fresh(a)] for a in pool]),
            ('twice-in-one-batch', lambda: [[fresh(a) for a in pool + pool]]
             if fam != 'ecdsa' else [[fresh(a) for a in pool]]),
            ('alone-again', lambda: [[fresh(a) for a in pool]]),
            ('alone-once-more', lambda: [[fresh(a) for a in pool]])]
  for r, (tag, build) in enumerate(rounds):
    if not ctx.want('round%d' % r):
      continue
    for batch in build():
      ret = entry(batch)
      healthy = batch[:len(batch) - len(weak)] if tag == 'reversed+weak' \
          else batch
      for a in healthy:
        ctx.count('evaluations')
        ctx.count('resubmitted_healthy_artifacts')
        ctx.distinct('resubmit', fam, r, a.SerializeToString()[:40])
        _accused(ctx, a, 'healthy %s artifact, submission %d (%s)' % (
            fam, r + 1, tag), {'family': fam, 'round': tag})
      if tag != 'reversed+weak' and ret is not False:
        ctx.violation('entry-point-true-for-healthy-batch@resubmission',
                      '%s returned %r in round %s' % (entry.__name__, ret, tag),
                      {'family': fam})
  ctx.sample({'family': fam, 'resubmission_rounds': [t for t, _ in rounds]})


def run(ctx, spec):
  s = spec['shard']
  if s.startswith('resubmit'):
    return run_resubmit(ctx, spec)
  if s.startswith('rsaagg'):
    return run_rsaagg(ctx, spec)
  for prefix, fn in (('rsamixed', run_rsamixed), ('rsa', run_rsa),
                     ('ecdsamixed', run_ecdsamixed), ('ecdsa', run_ecdsa),
                     ('ec', run_ec)):
    if s.startswith(prefix):
      return fn(ctx, spec)


def finalize(agg, tier):
  c = agg['counters']
  need = ['healthy_rsa_keys', 'healthy_ec_keys', 'healthy_signatures',
          'healthy_rsa_keys_with_weak_neighbours',
          'healthy_signatures_with_weak_neighbours', 'mixed_batches',
          'healthy_batches', 'resubmitted_healthy_artifacts',
          'padded_field_encodings', 'weak_first_curve_batches',
          'large_healthy_aggregate_batches']
  return [], ['reach counter %s is zero' % k for k in need if not c.get(k)]
