"""C13 - the randomness suite passes good generators, fails the documented
weak ones, and decides by its stated rule.  (1) history + executable model of
TestStructure, (2) population (rate) monitor over p-values of cryptographic
generators, (3) weak-generator monitor for every documented pair."""
import itertools
import math

from vp import rates

ID = 'C13'
RULE = ('(1) one evaluation = one TestStructure.Run step of a scripted '
        'p-value history compared with a sequential model of the decision '
        'rule; (2) one evaluation = one named p-value of one test on 2^20 bits '
        'of a seeded cryptographic generator, aggregated per name into a '
        'binomial rate monitor; (3) one evaluation = one (weak generator, '
        'documented test family, size, seed) that must FAIL; distinct by '
        'history / (generator, seed, name); non-trivial = history contains a '
        'p-value at or below a threshold, or the generator is weak')
ASSUMPTIONS = ['Fisher combination by mpmath in the model',
               'population monitor: per-hypothesis level 1e-9 (family-wise < '
               '1e-6 per run); inflation below its power goes unseen; p-values '
               'that are too large are not detectable',
               'weak-generator pairs are those that failed for every seed in '
               'the design-time calibration on the pinned tree; documented '
               'blind spots (lehmer128/8, mwc512, mt19937 below 2^22 bits) are '
               'not asserted']
EXHAUSTIVE_SUBSPACES = ['all p-value sequences of length <= 3 (thorough 4) over '
                        'a 10-value alphabet incl. thresholds and their '
                        'neighbours, for 4 level pairs x 3 repetition minima']

FINDBIAS_GENS = ['trunclcg16', 'trunclcg20', 'trunclcg28', 'trunclcg32',
                 'trunclcg64', 'trunclcg128', 'lehmer128', 'lehmer128/16',
                 'java', 'mwc64', 'mwc128', 'mwc256']
RANK_GENS = [('xorshift128+', 16), ('xorwow', 18), ('xorshift*', 22)]
SCATTER_GENS = ['xorshift128+', 'xorshift*', 'xorwow']


def plan(tier, seed):
  q = tier == 'quick'
  specs = [{'shard': 'decision-%d' % i, 'part': i, 'parts': 4,
            'maxlen': 3 if q else 4, 'weight': 2} for i in range(4)]
  specs.append({'shard': 'entrypoints', 'n': 40 if q else 300})
  S = 96 if q else 768
  nsh = 16 if q else 64
  for i in range(nsh):
    specs.append({'shard': 'population-%d' % i, 'seeds': S // nsh,
                  'findbias': (1 if q else 2) if True else 0,
                  'logn': 20, 'weight': 6})
  # the upper end of the property's size range (2^20..2^24 bits): parameter
  # ladders and truncations behave differently there
  for i, logn in enumerate([23, 24, 22, 24, 22, 23, 22, 23, 24] * (1 if q else 3)):
    specs.append({'shard': 'population%d-%d' % (logn, i), 'seeds': 1,
                  'findbias': 0, 'logn': logn, 'weight': 14,
                  'timeout': 3000})
  k = 0
  for g in FINDBIAS_GENS:
    for logn in (16, 18, 20):
      specs.append({'shard': 'weak-findbias-%s-%d' % (g.replace('/', '_'),
                                                      logn),
                    'family': 'FindBias', 'gen': g, 'logn': logn,
                    'seeds': (2 if logn == 20 else 4) if q else 16,
                    'weight': 2 + 2 * (logn - 16)})
  for g, lo in RANK_GENS:
    for logn in ([lo, lo + 2] if lo < 22 else [22]):
      specs.append({'shard': 'weak-rank-%s-%d' % (g, logn),
                    'family': 'LargeBinaryMatrixRank', 'gen': g, 'logn': logn,
                    'seeds': (3 if logn < 22 else 1) if q else 12,
                    'weight': 3 if logn < 22 else 9})
  for g in SCATTER_GENS:
    for logn in (16, 20):
      specs.append({'shard': 'weak-scatter-%s-%d' % (g, logn),
                    'family': 'LinearComplexityScatter', 'gen': g,
                    'logn': logn, 'seeds': 3 if q else 12, 'weight': 4})
  return specs


# ------------------------------------------------------- (1) decision model

def model_fisher(ps):
  import mpmath
  if len(ps) == 1:
    return mpmath.mpf(ps[0])
  if min(ps) == 0:
    return mpmath.mpf(0)
  s = -sum(mpmath.log(mpmath.mpf(p)) for p in ps)
  return mpmath.gammainc(len(ps), s, mpmath.inf, regularized=True)


class ModelStructure:
  """25-line sequential model of the documented decision rule."""

  def __init__(self, fail, repeat, min_rep):
    self.fail, self.repeat, self.min_rep = fail, repeat, min_rep
    self.p, self.state, self.comb = {}, {}, {}
    self.runs, self.finished = 0, False
    self.near_tie = False

  def run(self, result):
    import mpmath
    self.runs += 1
    if result == 'INSUFFICIENT':
      self.finished = True
      return True
    if isinstance(result, (int, float)):
      result = [('result', result)]
    for name, pv in result:
      self.p.setdefault(name, []).append(pv)
      comb = model_fisher(self.p[name])
      self.comb[name] = comb
      rep = model_fisher([self.repeat] * len(self.p[name]))
      if len(self.p[name]) >= 2:
        # Fisher combinations are floating-point results: a difference of a
        # few ulp to a threshold is not decidable; single p-values are exact
        for a, b in ((comb, self.fail), (comb, rep)):
          if a != b and abs(a - b) <= 1e-9 * max(abs(a), abs(b)):
            self.near_tie = True
      if comb < self.fail:
        self.state[name] = 'FAILED'
      elif rep < comb:
        self.state[name] = 'PASSED'
      else:
        self.state[name] = 'UNDECIDED'
    undecided = sum(1 for s in self.state.values() if s == 'UNDECIDED')
    self.finished = undecided == 0 and self.runs >= self.min_rep
    return self.finished


def run_decision(ctx, spec):
  from paranoid_crypto.lib.randomness_tests import nist_suite
  from paranoid_crypto.lib.randomness_tests import random_test_suite as rts
  levels = [(1e-9, 0.01), (0.01, 0.01), (0.0, 1.0), (1.0, 1.0)]
  idx = 0
  for fail, repeat in levels:
    up = lambda x: math.nextafter(x, 2.0)
    dn = lambda x: math.nextafter(x, -1.0)
    alpha = sorted({0.0, 1e-300, 1e-10, fail, repeat, max(0.0, dn(fail)),
                    min(1.0, up(fail)), max(0.0, dn(repeat)),
                    min(1.0, up(repeat)), 0.5, 1.0})
    shapes = ['float', 'named1', 'named2', 'vanish', 'appear', 'empty',
              'insufficient', 'int']
    for min_rep in (1, 2, 5):
      for ln in range(1, spec['maxlen'] + 1):
        for seqp in itertools.product(alpha, repeat=ln):
          idx += 1
          if idx % spec['parts'] != spec['part']:
            continue
          shape = shapes[idx // spec['parts'] % len(shapes)]
          if not ctx.want('h%d' % idx):
            continue
          script = []
          for j, p in enumerate(seqp):
            if shape == 'float':
              script.append(float(p))
            elif shape == 'int':
              script.append(int(p) if p in (0.0, 1.0) else float(p))
            elif shape == 'named1':
              script.append([('a', p)])
            elif shape == 'named2':
              script.append([('a', p), ('b', seqp[(j + 1) % ln])])
            elif shape == 'vanish':     # 'b' only in the first run
              script.append([('a', p)] + ([('b', seqp[-1])] if j == 0 else []))
            elif shape == 'appear':     # 'b' only from the second run on
              script.append([('a', p)] + ([('b', seqp[0])] if j else []))
            elif shape == 'empty':
              script.append([] if j == ln - 1 and ln > 1 else [('a', p)])
            else:
              script.append('INSUFFICIENT' if j == ln - 1 else [('a', p)])
          it = iter(script)

          def scripted_test(bits, n, _it=it):
            r = next(_it)
            if r == 'INSUFFICIENT':
              raise nist_suite.InsufficientDataError('scripted')
            return r
          ts = rts.TestStructure(scripted_test, [], fail, repeat,
                                 min_repetitions=min_rep)
          model = ModelStructure(fail, repeat, min_rep)
          nontrivial = any(p <= max(fail, repeat) for p in seqp)
          if nontrivial:
            ctx.distinct(fail, repeat, min_rep, shape, seqp)
          for step, r in enumerate(script):
            ctx.count('evaluations')
            try:
              got = ts.Run(0, 0)
            except Exception as e:  # pylint: disable=broad-except
              ctx.violation('teststructure-raised-%s' % type(e).__name__,
                            'Run raised %r on script %r' % (e, script),
                            {'script': script, 'levels': (fail, repeat)})
              break
            want = model.run(r)
            if model.near_tie:
              ctx.count('near_ties_skipped')
              break
            st = {k: v.name for k, v in ts.state.items()}
            data = {'script': script, 'step': step, 'fail': fail,
                    'repeat': repeat, 'min_repetitions': min_rep}
            if st != model.state:
              ctx.violation('decision-state-differs-from-rule',
                            'after step %d of %r (fail %g, repeat %g): states '
                            '%r, rule gives %r' % (step, script, fail, repeat,
                                                   st, model.state), data)
              break
            if bool(got) != want or bool(ts.finished) != want:
              mech = 'finished-differs-from-rule'
              if shape in ('vanish', 'empty') and not want:
                mech = 'finished-ignores-undecided-subtest-absent-from-' \
                       'latest-result'
              ctx.violation(mech, 'after step %d of %r: finished=%r/%r, rule '
                            'gives %r (states %r)' % (step, script, got,
                                                      ts.finished, want, st),
                            data)
              break
            if ts.Failed() != any(v == 'FAILED' for v in model.state.values()):
              ctx.violation('failed-differs-from-rule', repr(script), data)
              break
            for nm, cv in ts.combined_p_values.items():
              w = float(model.comb[nm])
              if abs(float(cv) - w) > 1e-300 + 1e-9 * abs(w):
                ctx.violation('combined-p-value-differs', '%s: %r vs Fisher %r'
                              % (nm, cv, w), data)
                break
          ctx.count('histories')
  ctx.sample({'script': script, 'fail': fail, 'repeat': repeat,
              'min_repetitions': min_rep, 'shape': shape})


def run_entrypoints(ctx, spec):
  """TestSource / TestBitString with a patched TESTS list and scripted tests:
  loop behaviour and return value (True exactly when some sub-test failed)."""
  from paranoid_crypto.lib.randomness_tests import random_test_suite as rts
  rng = ctx.rng('entry')
  saved = rts.TESTS
  try:
    for i in range(spec['n']):
      if not ctx.want('e%d' % i):
        continue
      ntests = rng.randint(1, 3)
      min_rep = rng.choice([1, 1, 2, 3])
      scripts = []
      crafted = {
          # a sub-test dips below the fail level in an early round and
          # recovers in later ones (the verdict is the final state)
          0: (2, [[5e-10, 0.9, 1.0, 1.0, 1.0, 1.0, 1.0]]),
          1: (1, [[[('a', 5e-10), ('b', 0.005)], [('a', 0.9), ('b', 0.9)]] +
                  [[('a', 1.0), ('b', 1.0)]] * 6]),
          2: (3, [[[('x', 9e-10)], [('x', 1.0)], [('x', 1.0)], [('x', 1.0)],
                   [('x', 1.0)], [('x', 1.0)]]]),
          3: (2, [[5e-10, 0.9, 1.0, 1.0, 1.0, 1.0], [0.5]]),
          # and the converse: fine first, failing in the last round
          4: (2, [[0.5, 1e-30, 1e-30]]),
      }
      if i in crafted:
        min_rep, scripts = crafted[i]
        scripts = [list(sc) for sc in scripts]
        ntests = len(scripts)
        ctx.count('crafted_recovery_scripts')
      for t in range(ntests if i not in crafted else 0):
        ln = rng.randint(1, 5)
        alpha = [0.0, 1e-12, 5e-10, 9e-10, 1e-9, 5e-9, 1e-4, 0.009, 0.01,
                 0.011, 0.3, 0.9, 1.0]
        if rng.chance(1, 2):
          # named sub-tests: a sibling that stays undecided keeps the test
          # running while another dips below the fail level and recovers
          sc = [[('a', rng.choice(alpha)), ('b', rng.choice(alpha))]
                for _ in range(ln)]
          sc[-1] = [('a', rng.choice([0.9, 1.0])), ('b', rng.choice(
              [0.9, 1.0, 0.0]))]
          sc += [[('a', 1.0), ('b', 1.0)]] * 3
        else:
          sc = [rng.choice(alpha) for _ in range(ln)]
          sc[-1] = rng.choice([0.5, 1.0, 0.0, 1e-30])
          sc += [1.0] * 3                                # terminates the loop
        scripts.append(sc)
      calls = [0] * ntests

      def mk(t):
        def scripted(bits, n):
          j = min(calls[t], len(scripts[t]) - 1)
          calls[t] += 1
          return scripts[t][j]
        scripted.__name__ = 'Scripted%d' % t
        return scripted
      rts.TESTS = [(mk(t), []) for t in range(ntests)]
      sources = []

      def source(n):
        sources.append(n)
        return 0
      for entry in ('TestSource', 'TestBitString'):
        calls[:] = [0] * ntests
        del sources[:]
        ctx.count('evaluations')
        ctx.distinct(entry, tuple(map(tuple, scripts)))
        try:
          if entry == 'TestSource':
            got = rts.TestSource(source, 64, 0.01, 1e-9, log_level=0,
                                 min_repetitions=min_rep)
          else:
            got = rts.TestBitString(0, 64, 1e-9, log_level=0)
        except Exception as e:  # pylint: disable=broad-except
          ctx.violation('entry-point-raised-%s@%s' % (type(e).__name__, entry),
                        repr(e), {'scripts': scripts})
          continue
        # model
        want = False
        for t in range(ntests):
          m = ModelStructure(1e-9, 0.01 if entry == 'TestSource' else 1e-9,
                             min_rep if entry == 'TestSource' else 1)
          for j in range(10 ** 3):
            fin = m.run(scripts[t][min(j, len(scripts[t]) - 1)])
            if fin or entry == 'TestBitString':
              break
          want |= any(v == 'FAILED' for v in m.state.values())
          if entry == 'TestSource' and calls[t] != m.runs and not m.near_tie:
            ctx.violation('testsource-repetition-count', 'test %d ran %d '
                          'times, rule says %d (script %r)' % (
                              t, calls[t], m.runs, scripts[t]),
                          {'scripts': scripts})
        if got is not want:
          ctx.violation('entry-point-return-differs-from-rule@%s' % entry,
                        '%s returned %r, some sub-test failed = %r (scripts '
                        '%r)' % (entry, got, want, scripts),
                        {'scripts': scripts})
        ctx.count('entry_point_runs')
  finally:
    rts.TESTS = saved
  try:
    ctx.sample({'entry_points': 'TestSource/TestBitString', 'scripts': scripts})
  except NameError:
    pass


# ------------------------------------------------------- (2) population

GOOD = ['shake128', 'pcg64', 'philox']


def _named(test, params, res):
  base = test.__name__ + (' ' + str(params) if params else '')
  if isinstance(res, (int, float)):
    return [(base, float(res))]
  return [('%s/%s' % (base, nm), float(p)) for nm, p in res]


def run_population(ctx, spec):
  from paranoid_crypto.lib.randomness_tests import nist_suite
  from paranoid_crypto.lib.randomness_tests import random_test_suite as rts
  from paranoid_crypto.lib.randomness_tests import rng as rrng
  r = ctx.rng('pop')
  n = 1 << spec['logn']
  for i in range(spec['seeds']):
    gname = GOOD[(i + int(spec['shard'].split('-')[1])) % len(GOOD)]
    seed = r.bits(64) | 1
    if not ctx.want('%s/%d' % (gname, seed)):
      continue
    bits = rrng.GetRng(gname).RandomBits(n, seed=seed)
    ctx.count('sequences:' + gname)
    ctx.distinct(gname, seed)
    tests = rts.NIST_TESTS + rts.EXTENDED_NIST_TESTS
    if i < spec['findbias']:
      tests = tests + rts.LATTICE_TESTS
    for test, params in tests:
      try:
        res = test(bits, n, *params)
      except nist_suite.InsufficientDataError:
        ctx.count('insufficient:' + test.__name__)
        continue
      except Exception as e:  # pylint: disable=broad-except
        ctx.violation('test-raised-%s@%s' % (type(e).__name__, test.__name__),
                      '%s on %d bits of %s(seed=%d): %r' % (
                          test.__name__, n, gname, seed, e),
                      {'gen': gname, 'seed': seed, 'logn': spec['logn']})
        continue
      for name, p in _named(test, params, res):
        ctx.count('evaluations')
        if not (p == p and 0.0 <= p <= 1.0):
          ctx.violation('p-value-out-of-range@%s' % name.split('/')[0],
                        '%s = %r on %s(seed=%d)' % (name, p, gname, seed),
                        {'gen': gname, 'seed': seed})
          continue
        ctx.count('pop:n:' + name)
        for a in (1e-3, 0.01, 0.05):
          if p <= a:
            ctx.count('pop:le%g:%s' % (a, name))
        if p < 1e-9:
          ctx.violation('cryptographic-generator-fails@%s' % name.split('/')[0],
                        '%s = %g < 1e-9 on 2^%d bits of %s(seed=%d)' % (
                            name, p, spec['logn'], gname, seed),
                        {'gen': gname, 'seed': seed, 'name': name})
        ctx.minc('min:pvalue_x1e12', int(min(p, 1.0) * 1e12))
    # the entry point itself, on the NIST + extended part (FindBias is slow)
    if i == 0 and spec['logn'] == 20 and int(
        spec['shard'].split('-')[1]) % 2 == 0:
      # both entry points, whole suite (incl. the lattice tests)
      ctx.count('evaluations')
      if rts.TestBitString(bits, n, log_level=0) is not False:
        ctx.violation('entry-point-fails-cryptographic-generator',
                      'TestBitString returned True for 2^20 bits of %s(seed='
                      '%d)' % (gname, seed), {'gen': gname, 'seed': seed})
      ctx.count('entry_point_good_runs')
      if int(spec['shard'].split('-')[1]) % 8 == 0:
        state = {'calls': 0}

        def source(nbits, _g=gname, _s=seed):
          state['calls'] += 1
          return rrng.GetRng(_g).RandomBits(nbits, seed=_s + state['calls'])
        ctx.count('evaluations')
        if rts.TestSource(source, n, log_level=0) is not False:
          ctx.violation('entry-point-fails-cryptographic-generator',
                        'TestSource returned True for %s' % gname,
                        {'gen': gname, 'seed': seed})
        ctx.count('testsource_good_runs')
        ctx.maxc('max:testsource_samples_drawn', state['calls'])
    elif i == 0:
      for prefix in ('Frequency', 'Serial', 'LargeBinaryMatrixRank',
                     'LinearComplexityScatter', 'RandomWalk'):
        ctx.count('evaluations')
        if rts.TestBitString(bits, n, test_prefix=prefix, log_level=0):
          ctx.violation('entry-point-fails-cryptographic-generator',
                        'TestBitString(test_prefix=%s) returned True for %s' %
                        (prefix, gname), {'gen': gname, 'seed': seed})
        ctx.count('entry_point_good_runs')
  try:
    ctx.sample({'generator': gname, 'seed': seed, 'bits': n})
  except NameError:
    pass


# ------------------------------------------------------- (3) weak generators

def run_weak(ctx, spec):
  from paranoid_crypto.lib.randomness_tests import random_test_suite as rts
  from paranoid_crypto.lib.randomness_tests import rng as rrng
  r = ctx.rng('weak')
  n = 1 << spec['logn']
  g = rrng.GetRng(spec['gen'])
  for i in range(spec['seeds']):
    seed = r.bits(62) | 1
    if spec['gen'] == 'java':
      seed = r.bits(47) | 1
    if spec['gen'].startswith('mwc'):
      seed = r.bits(60) + 2
    if not ctx.want('s%d' % seed):
      continue
    bits = g.RandomBits(n, seed=seed)
    ctx.count('evaluations')
    ctx.count('weak_pairs_run')
    ctx.distinct(spec['gen'], spec['family'], spec['logn'], seed)
    try:
      failed = rts.TestBitString(bits, n, test_prefix=spec['family'],
                                 log_level=0)
    except Exception as e:  # pylint: disable=broad-except
      ctx.violation('entry-point-raised-%s' % type(e).__name__, repr(e),
                    {'gen': spec['gen'], 'seed': seed})
      continue
    if failed is not True:
      ctx.violation('documented-weak-generator-passes/%s@%s' % (
          spec['family'], spec['gen']),
                    '%s did not fail 2^%d bits of %s (seed %d)' % (
                        spec['family'], spec['logn'], spec['gen'], seed),
                    {'gen': spec['gen'], 'logn': spec['logn'], 'seed': seed,
                     'family': spec['family']})
    else:
      ctx.count('weak_pairs_failed_as_documented')
  try:
    ctx.sample({'generator': spec['gen'], 'family': spec['family'],
                'bits': n, 'seed': seed})
  except NameError:
    pass


def run(ctx, spec):
  s = spec['shard']
  for prefix, fn in (('decision', run_decision), ('entrypoints',
                                                  run_entrypoints),
                     ('population', run_population), ('weak', run_weak)):
    if s.startswith(prefix):
      return fn(ctx, spec)


def finalize(agg, tier):
  c = agg['counters']
  viol, inc = [], []
  names = sorted(k[6:] for k in c if k.startswith('pop:n:'))
  worst = 1.0
  hyp = 0
  for nm in names:
    n = c['pop:n:' + nm]
    for a in (1e-3, 0.01, 0.05):
      hits = c.get('pop:le%g:%s' % (a, nm), 0)
      hyp += 1
      tail = rates.binom_sf(hits, n, a) if hits else 1.0
      worst = min(worst, tail)
      if tail < 1e-9:
        viol.append({'mech': 'p-values-systematically-small@%s' % nm.split(
            '/')[0].split(' ')[0],
                     'msg': '%s: %d of %d p-values <= %g on cryptographic '
                     'generators (binomial tail %.2e)' % (nm, hits, n, a, tail),
                     'data': {'name': nm, 'hits': hits, 'n': n, 'alpha': a}})
  c['population_hypotheses'] = hyp
  c['population_names'] = len(names)
  c['population_smallest_tail_x1e12'] = int(worst * 1e12)
  for k in ('histories', 'entry_point_runs', 'weak_pairs_failed_as_documented',
            'entry_point_good_runs', 'testsource_good_runs',
            'sequences:shake128', 'sequences:pcg64',
            'sequences:philox'):
    if not c.get(k):
      inc.append('reach counter %s is zero' % k)
  if names and len(names) < 300:
    inc.append('only %d named p-values observed' % len(names))
  return viol, inc
