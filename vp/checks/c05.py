"""C05 - RSA keys with patterned, sparse or smooth primes are always flagged.
Generator-side ground truth; lattice-based detection is decided per family by
a miss-rate monitor (DESIGN 2.3), deterministic clauses per execution."""
import math

from vp import gen
from vp import rates
from vp import rsagen
from vp import workloads

ID = 'C05'
RULE = ('one evaluation = one modulus built by one of the five documented '
        'generators (repeated word, swapped limbs, both repeated, both low '
        'Hamming weight, shared smooth p-1/q-1) submitted to the named check; '
        'distinct by modulus; all are non-trivial')
ASSUMPTIONS = ['ground truth from the generator (p, q known)',
               'detection in the lattice/search based families is a heuristic:'
               ' a family fails the run when its miss count is implausible '
               '(alpha 1e-7) for a miss rate <= 2%; isolated misses are '
               'reported in evidence',
               'low-Hamming-weight moduli are capped (each can cost 30 s)']
EXHAUSTIVE_SUBSPACES = []


def plan(tier, seed):
  q = tier == 'quick'
  specs = []
  for i in range(6):
    specs.append({'shard': 'word-%d' % i, 'n': 40 if q else 200,
                  'sizes': [1024, 1536, 2048] + ([3072] if q else [3072, 4096]),
                  'weight': 3})
  for i in range(4):
    specs.append({'shard': 'swap-%d' % i, 'reps': 1 if q else 3,
                  'sizes': [1024, 1536, 2048, 3072, 4096], 'weight': 7})
  for i in range(2):
    specs.append({'shard': 'both-%d' % i, 'n': 80 if q else 400,
                  'sizes': [1024, 2048] + ([] if q else [4096])})
  for i in range(12 if q else 16):
    specs.append({'shard': 'lhw-%d' % i, 'n': 3 if q else 18, 'weight': 8,
                  'corner': 40 if q else 160,
                  'sizes': [1024, 2048] + ([] if q else [4096])})
  for i in range(4):
    specs.append({'shard': 'smooth-%d' % i, 'n': 5 if q else 40,
                  'sizes': [1024, 2048], 'weight': 4})
  return specs


def _run(ctx, chk, n):
  """Runs the check on a batch that contains the modulus at a varying
  position among healthy keys of mixed sizes (checks must judge every key of
  a batch by itself)."""
  batch, key = workloads.rsa_in_batch(ctx, n)
  try:
    chk.Check(batch)
  except Exception as e:  # pylint: disable=broad-except
    ctx.violation('check-raised-%s@%s' % (type(e).__name__, chk.check_name),
                  repr(e), {'n': n})
  ent = gen.entries(key.test_info).get(chk.check_name)
  fac = gen.attached(key.test_info).get('N_FACTORS')
  facs = set(int(x, 16) for x in eval(fac)) if fac else set()  # pylint: disable=eval-used
  return bool(ent and ent[0]) and key.test_info.weak, facs


def _outcome(ctx, family, ok, n, detail):
  ctx.count('evaluations')
  ctx.count('tried:' + family)
  ctx.distinct(n)
  if ok:
    ctx.count('hit:' + family)
  else:
    ctx.count('miss:' + family)
    ctx.sample({'MISS': family, 'n': n, 'detail': detail}, limit=12)


def run_word(ctx, spec):
  from paranoid_crypto.lib import rsa_single_checks as rs
  rng = ctx.rng('word')
  dflt = rs.CheckBitPatterns()
  for i in range(spec['n']):
    nbits = rng.choice(spec['sizes'])
    ws = [w for w in rsagen.PATTERN_SIZES if w <= nbits // 16]
    custom = i % 4 == 3
    w = rng.choice([24, 48, 20, 40, 12, 96, 100][:5 if nbits < 2048 else 7]) \
        if custom else ws[(i * 7 + ctx.seed) % len(ws)]
    if w > nbits // 16 or not ctx.want('w%d' % i):
      continue
    dev = rng.choice([0, 8, 16, 32, 32])
    got = rsagen.patterned_prime(rng, nbits // 2, w, dev_bits=max(dev, 16))
    if got is None:
      continue
    p, word = got
    qq = rsagen.rand_prime_top2(rng, nbits // 2)
    n = p * qq
    chk = rs.CheckBitPatterns(pattern_sizes=[w] if rng.chance(1, 2) else
                              [5, w, 7]) if custom else dflt
    flagged, facs = _run(ctx, chk, n)
    _outcome(ctx, 'repeated-word' + ('/custom-sizes' if custom else ''),
             flagged and {p, qq} <= facs, n,
             {'w': w, 'nbits': nbits, 'dev': dev})
  # corner cells, every shard: the largest default word sizes that the
  # property admits for a modulus length (w <= bits/16), 32 deviating low
  # bits, also for lengths between the usual ones; and user lists in which the
  # word size divides a larger size that the length cap excludes
  for ci, nbits in enumerate([1024, 1100, 1536, 2048] + (
      [] if ctx.tier == 'quick' else [3072, 4096])):
    ws = [w for w in rsagen.PATTERN_SIZES if w <= nbits // 16]
    for w in ws[-2:]:
      for custom in (False, True):
        if not ctx.want('corner/%d/%d/%d' % (nbits, w, custom)) or ctx.spent():
          continue
        if (ci + w + custom + int(spec['shard'][-1])) % 2:
          continue          # two shards share a cell
        got = rsagen.patterned_prime(rng, nbits // 2, w, dev_bits=32)
        if got is None:
          continue
        p, word = got
        qq = rsagen.rand_prime_top2(rng, nbits - nbits // 2)
        n = p * qq
        chk = rs.CheckBitPatterns(pattern_sizes=rng.choice(
            [[w, 4 * w], [w, 2 * w, 8 * w], [2 * w * 8, w]])) if custom \
            else dflt
        flagged, facs = _run(ctx, chk, n)
        ctx.count('word_corner_cells')
        _outcome(ctx, 'repeated-word' + ('/custom-sizes' if custom else ''),
                 flagged and {p, qq} <= facs, n,
                 {'w': w, 'nbits': nbits, 'dev': 32, 'corner': True})
  try:
    ctx.sample({'family': 'one prime repeats a w-bit word', 'w': w,
                'nbits': nbits, 'p': p})
  except NameError:
    pass


def swap_cells(sizes):
  """Every (modulus bits, limb size, pattern size) cell whose implied
  denominator has at most bits/10 bits."""
  cells = []
  for nbits in sizes:
    for wsize in (8, 16, 32, 64):
      for psize in range(3, wsize, 2):
        d = (2 ** psize - 1) * (2 ** (psize * wsize) + 1) // (2 ** wsize + 1)
        if d.bit_length() > nbits // 10:
          break
        cells.append((nbits, wsize, psize, d.bit_length()))
  return cells


def run_swap(ctx, spec):
  from paranoid_crypto.lib import rsa_single_checks as rs
  rng = ctx.rng('swap')
  chk = rs.CheckPermutedBitPatterns()
  cells = swap_cells(spec['sizes'])
  if ctx.tier == 'quick':
    # 4096-bit moduli are expensive to build: only the 64-bit-limb cells
    cells = [c for c in cells if c[0] < 4096 or c[1] == 64]
  part = int(spec['shard'].split('-')[1])
  mine = [c for j, c in enumerate(cells) if j % 4 == part]
  for rep in range(spec['reps']):
    for (nbits, wsize, psize, dbits) in mine:
      if not ctx.want('%d/%d/%d/%d' % (nbits, wsize, psize, rep)):
        continue
      got = rsagen.patterned_prime(rng, nbits // 2, psize, dev_bits=32,
                                   swap=wsize)
      if got is None:
        continue
      p, _ = got
      qq = rsagen.rand_prime_top2(rng, nbits // 2)
      n = p * qq
      flagged, facs = _run(ctx, chk, n)
      ctx.count('swap_cells_covered')
      _outcome(ctx, 'swapped-limbs', flagged and {p, qq} <= facs, n,
               {'wsize': wsize, 'psize': psize, 'dbits': dbits,
                'nbits': nbits})
      ctx.sample({'family': 'repeated word with swapped limbs', 'limb': wsize,
                  'pattern': psize, 'nbits': nbits, 'p': p})


def run_both(ctx, spec):
  from paranoid_crypto.lib import rsa_single_checks as rs
  rng = ctx.rng('both')
  chk = rs.CheckContinuedFractions()
  for i in range(spec['n']):
    nbits = rng.choice(spec['sizes'])
    w1, w2 = rng.choice([(3, 5), (8, 8), (16, 24), (32, 32), (48, 64),
                         (64, 64), (7, 64), (1, 13), (64, 2),
                         (rng.randint(1, 64), rng.randint(1, 64))])
    if not ctx.want('b%d' % i):
      continue
    p = rsagen.both_pattern_prime(rng, nbits // 2, w1)
    qq = rsagen.both_pattern_prime(rng, nbits // 2, w2)
    if p == qq:
      continue
    n = p * qq
    flagged, _ = _run(ctx, chk, n)
    _outcome(ctx, 'both-repeated', flagged, n, {'w': (w1, w2), 'nbits': nbits})
  try:
    ctx.sample({'family': 'both primes repeat words', 'w': [w1, w2], 'n': n})
  except NameError:
    pass


def _lhw_giveup_state(n):
  """Re-runs rsa_util.CheckLowHammingWeight(n) under a return-event tracer and
  reports the search state at the moment it gave up: (steps, cutoff, minv).
  None if the function's frame does not expose those names."""
  import sys
  from paranoid_crypto.lib import rsa_util
  seen = {}

  def tracer(frame, event, arg):
    if frame.f_code.co_name != 'CheckLowHammingWeight':
      return None

    def local(fr, ev, a):
      if ev == 'return':
        loc = fr.f_locals
        if all(k in loc for k in ('steps', 'cutoff', 'minv')):
          seen['state'] = (int(loc['steps']), int(loc['cutoff']),
                           int(loc['minv']))
      return local
    return local
  old = sys.gettrace()
  sys.settrace(tracer)
  try:
    res = rsa_util.CheckLowHammingWeight(n)
  finally:
    sys.settrace(old)
  return res, seen.get('state')


def _lhw_miss_family(ctx, n):
  """A miss of the low-weight check is the documented give-up (F19's
  mechanism) iff the search stopped at the cutoff step without ever having
  seen a heuristic value below the modulus length."""
  try:
    res, st = _lhw_giveup_state(n)
  except Exception:  # pylint: disable=broad-except
    return 'both-low-weight'
  ctx.count('lhw_misses_traced')
  # (2500 is the documented default of the cutoff parameter)
  if st and not res[0] and st[0] == st[1] == 2500 and st[2] >= n.bit_length():
    return 'both-low-weight/abandoned-at-cutoff'
  return 'both-low-weight'


def run_lhw(ctx, spec):
  from paranoid_crypto.lib import rsa_single_checks as rs
  rng = ctx.rng('lhw')
  chk = rs.CheckLowHammingWeight()
  for i in range(spec['n']):
    nbits = rng.choice(spec['sizes'])
    h1, h2 = rng.choice([(2, 2), (3, 3), (8, 8), (16, 16), (24, 24), (32, 32),
                         (5, 32), (32, 3), (rng.randint(2, 32),
                                            rng.randint(2, 32))])
    if not ctx.want('l%d' % i):
      continue
    c1, c2 = rng.chance(1, 4), rng.chance(1, 4)
    p = rsagen.low_weight_prime(rng, nbits // 2, h1, clustered=c1)
    qq = rsagen.low_weight_prime(rng, nbits // 2, h2, clustered=c2)
    if p == qq:
      continue
    n = p * qq
    flagged, _ = _run(ctx, chk, n)
    # regime: set bits of a prime of weight >= 12 clustered in its top 3*hw
    # positions (search is abandoned at the cutoff there: finding F19)
    top = (c1 and bin(p).count('1') >= 12) or (c2 and bin(qq).count('1') >= 12)
    fam = 'both-low-weight' + ('/clustered-top' if top else '')
    if not flagged and not top:
      fam = _lhw_miss_family(ctx, n)
    _outcome(ctx, fam,
             flagged, n, {'hw': (bin(p).count('1'), bin(qq).count('1')),
                          'clustered': (c1, c2), 'nbits': nbits})
  # the corner of the region: smallest moduli, weights next to the limit (the
  # search runs longest there; a changed cutoff or threshold shows here first)
  for i in range(spec.get('corner', 0)):
    if not ctx.want('k%d' % i) or ctx.spent():
      continue
    p = rsagen.low_weight_prime(rng, 512, rng.randint(29, 32))
    qq = rsagen.low_weight_prime(rng, 512, rng.randint(29, 32))
    if p == qq:
      continue
    n = p * qq
    flagged, _ = _run(ctx, chk, n)
    ctx.count('lhw_corner_moduli')
    _outcome(ctx, 'both-low-weight' if flagged else _lhw_miss_family(ctx, n),
             flagged, n,
             {'hw': (bin(p).count('1'), bin(qq).count('1')), 'corner': True,
              'nbits': n.bit_length()})
  try:
    ctx.sample({'family': 'both primes of low Hamming weight',
                'weights': [bin(p).count('1'), bin(qq).count('1')], 'n': n})
  except NameError:
    pass


def _pollard_product():
  sp = rsagen.small_primes()
  m = 1
  for i, p in enumerate(sp):
    m *= p ** int(math.log(2 ** 64, p)) if i < 150 else p
  return m


def _bound_product(bound):
  """Definitional bound-powersmooth product (integer arithmetic only)."""
  m = 1
  for p in rsagen.small_primes():
    if p >= bound:
      break
    e = 1
    while p ** (e + 1) <= bound:
      e += 1
    m *= p ** e
  return m


def _pollard_instances(ctx, hist):
  """The default check reached through different instance histories: other
  instances (user bounds, earlier defaults, the registry's) are constructed
  before it.  Every default instance must carry the same product."""
  from paranoid_crypto.lib import paranoid
  from paranoid_crypto.lib import rsa_single_checks as rs
  extra = {}
  if hist == 0:
    chk = rs.CheckPollardpm1()
  elif hist == 1:
    extra[2 ** 20] = rs.CheckPollardpm1(bound=2 ** 20)
    chk = rs.CheckPollardpm1()
  elif hist == 2:
    first = rs.CheckPollardpm1()
    extra[2 ** 20] = rs.CheckPollardpm1(bound=2 ** 20)
    extra[2 ** 16] = rs.CheckPollardpm1(bound=2 ** 16)
    chk = rs.CheckPollardpm1()
    extra['first-default'] = first
  else:
    extra[2 ** 16] = rs.CheckPollardpm1(bound=2 ** 16)
    extra[2 ** 20] = rs.CheckPollardpm1(bound=2 ** 20)
    chk = dict(paranoid.GetRSAAllChecks())['CheckPollardpm1']
    extra[2 ** 20] = rs.CheckPollardpm1(bound=2 ** 20)   # a second one
  ctx.count('instance_history:%d' % hist)
  # invariant at a hook: the product held by an instance is the documented one
  M = _pollard_product()
  for name, inst in [('default', chk)] + sorted(
      ((str(k), v) for k, v in extra.items())):
    m = getattr(inst, '_m', None)
    if m is None:
      ctx.count('pollard_product_unobservable')
      continue
    ctx.count('pollard_product_observed')
    want = M if name in ('default', 'first-default') else None
    if want is not None and int(m) != want:
      ctx.violation('pollard-default-product-differs/history',
                    'default CheckPollardpm1 built in instance history %d '
                    'holds a product different from the documented one '
                    '(v2 = %d instead of 64)' % (
                        hist, (int(m) & -int(m)).bit_length() - 1),
                    {'history': hist, 'instance': name})
    elif want is None:
      mb = _bound_product(int(name))
      # float log in the constructor may differ at exact powers; require only
      # that every prime power strictly below the bound divides the product
      if int(m) % _bound_product(int(name) // 2 + 1):
        ctx.violation('pollard-bound-product-incomplete/history',
                      'CheckPollardpm1(bound=%s) built in instance history %d '
                      'misses prime powers below bound/2' % (name, hist),
                      {'history': hist, 'bound': name})
  return chk, extra


def run_smooth(ctx, spec):
  rng = ctx.rng('smooth')
  hist = int(spec['shard'].rsplit('-', 1)[1]) % 4
  chk, extra = _pollard_instances(ctx, hist)
  M = _pollard_product()
  for i in range(spec['n']):
    nbits = rng.choice(spec['sizes'])
    both = i % 3 == 0
    maxpow = i % 2 == 1
    if not ctx.want('m%d' % i):
      continue
    for _ in range(60):
      if maxpow:
        n, p, qq = rsagen.shared_smooth_maxpow(rng, nbits, both)
      else:
        n, p, qq = rsagen.shared_smooth(rng, nbits, both)
      shared = math.gcd(p - 1, qq - 1)
      smooth_shared = math.gcd(shared, M)
      if (M % (p - 1) == 0 and smooth_shared >= 2 ** 60 and
          (M % (qq - 1) == 0) == both and n.bit_length() == nbits):
        break
    else:
      ctx.count('smooth_not_constructible')
      continue
    insts = [('default', chk)]
    if 'first-default' in extra:
      insts.append(('first-default', extra['first-default']))
    for iname, inst in insts:
      flagged, facs = _run(ctx, inst, n)
      ctx.count('evaluations')
      ctx.distinct(n, iname)
      fam = 'smooth/' + ('both' if both else 'one') + (
          '/maxpow' if maxpow else '')
      ctx.count('tried:' + fam)
      if not flagged:
        ctx.violation('shared-smooth-not-flagged' + (
            '/maxpow' if maxpow else ''),
                      'p-1 | default Pollard product, gcd(p-1,q-1) has a '
                      'smooth part of %d bits, both_smooth=%s, instance '
                      'history %d (%s): not flagged' %
                      (smooth_shared.bit_length(), both, hist, iname),
                      {'n': n, 'p': p, 'both': both, 'history': hist})
      elif not both and not {p, qq} <= facs:
        ctx.violation('shared-smooth-not-factored',
                      'only p-1 is smooth but no factorisation was recorded',
                      {'n': n, 'p': p, 'history': hist})
      else:
        ctx.count('hit:' + fam)
  # the documented base a = 2^(n-1): p - 1 = S*b with b | M although the
  # shared S (>= 2^60, 2^20-smooth) holds a prime square that M does not
  for j in range(3 if ctx.tier == 'quick' else 12):
    if not ctx.want('c%d' % j):
      continue
    both = j % 3 == 2
    n, p, qq = rsagen.shared_smooth_cofactor(rng, rng.choice(spec['sizes']),
                                             both)
    inside = (M % (p - 1) != 0 and ((n - 1) * M) % (p - 1) == 0 and
              math.gcd(n - 1, M) >= 2 ** 60 and
              (((n - 1) * M) % (qq - 1) == 0) == both)
    if not inside:
      ctx.count('smooth_cofactor_not_constructible')
      continue
    flagged, facs = _run(ctx, chk, n)
    ctx.count('evaluations')
    ctx.distinct(n, 'cofactor')
    ctx.count('tried:smooth/cofactor')
    if not flagged:
      ctx.violation('shared-smooth-not-flagged/cofactor',
                    'p-1 = S*b, q-1 = S*c with S >= 2^60 2^20-smooth (holding '
                    'a prime square) and b | default product, both_smooth=%s: '
                    'not flagged' % both, {'n': n, 'p': p, 'both': both})
    elif not both and not {p, qq} <= facs:
      ctx.violation('shared-smooth-not-factored/cofactor',
                    'only b is smooth but no factorisation was recorded',
                    {'n': n, 'p': p})
    else:
      ctx.count('hit:smooth/cofactor')
  # exactly on the documented threshold: gcd(n - 1, product) == 2^60
  for j in range(2 if ctx.tier == 'quick' else 6):
    if not ctx.want('t%d' % j) or ctx.spent():
      continue
    n, p, qq = rsagen.shared_smooth_boundary(rng, 1024)
    flagged, facs = _run(ctx, chk, n)
    ctx.count('evaluations')
    ctx.distinct(n, 'threshold')
    ctx.count('tried:smooth/threshold')
    if not flagged or not {p, qq} <= facs:
      ctx.violation('shared-smooth-not-flagged/at-threshold',
                    'p-1 | default product and the smooth part shared with '
                    'n-1 is exactly 2^60 ("at least 2^60"): flagged=%s, '
                    'factored=%s' % (flagged, {p, qq} <= facs),
                    {'n': n, 'p': p})
    else:
      ctx.count('hit:smooth/threshold')
  # user-supplied bounds: a key whose p-1 is a squarefree product of primes
  # below the bound divides every bound-powersmooth product
  for bound, inst in sorted((k, v) for k, v in extra.items()
                            if isinstance(k, int)):
    for j in range(2):
      if not ctx.want('b%d-%d' % (bound, j)):
        continue
      both = j == 1
      n, p, qq = rsagen.shared_smooth_squarefree(rng, 1024, both, bound)
      if math.gcd(qq - 1, _bound_product(bound)) == qq - 1 and not both:
        continue
      flagged, facs = _run(ctx, inst, n)
      ctx.count('evaluations')
      ctx.distinct(n, bound)
      ctx.count('tried:smooth/user-bound')
      if not flagged:
        ctx.violation('shared-smooth-not-flagged/user-bound',
                      'CheckPollardpm1(bound=2^%d), instance history %d: p-1 '
                      'is a squarefree product of primes below the bound and '
                      'shares >= 2^60 with q-1: not flagged' % (
                          bound.bit_length() - 1, hist),
                      {'n': n, 'p': p, 'bound': bound, 'history': hist})
      elif not both and not {p, qq} <= facs:
        ctx.violation('shared-smooth-not-factored/user-bound',
                      'only p-1 is smooth but no factorisation was recorded',
                      {'n': n, 'p': p, 'bound': bound})
      else:
        ctx.count('hit:smooth/user-bound')
  try:
    ctx.sample({'family': 'p-1, q-1 share a smooth factor', 'both_smooth': both,
                'instance_history': hist, 'n': n})
  except NameError:
    pass


def run(ctx, spec):
  s = spec['shard']
  tail = s.rsplit('-', 1)[-1]
  if tail.isdigit() and int(tail) % 2 == 1:
    # odd shards: other instances of the parametrised checks exist (and were
    # used) before the instance under observation is built
    workloads.rsa_decoy_instances(ctx)
  for prefix, fn in (('word', run_word), ('swap', run_swap),
                     ('both', run_both), ('lhw', run_lhw),
                     ('smooth', run_smooth)):
    if s.startswith(prefix):
      return fn(ctx, spec)


FAMILIES = ['repeated-word', 'repeated-word/custom-sizes', 'swapped-limbs',
            'both-repeated', 'both-low-weight']


def finalize(agg, tier):
  c = agg['counters']
  viol, inc = [], []
  for fam in FAMILIES:
    n, miss = c.get('tried:' + fam, 0), c.get('miss:' + fam, 0)
    if n < (8 if fam != 'repeated-word/custom-sizes' else 4):
      inc.append('family %s: only %d moduli observed' % (fam, n))
      continue
    v = rates.check_max_rate('C05', 'family-missed/' + fam, miss, n,
                             p_max=0.02, alpha=1e-7)
    if v:
      viol.append(v)
    elif miss:
      viol.append({'mech': 'sporadic-miss/' + fam,
                   'msg': '%d of %d moduli of family %s were not flagged/'
                   'factored (below the rate threshold)' % (miss, n, fam),
                   'data': {'miss': miss, 'n': n}})
  fam = 'both-low-weight/abandoned-at-cutoff'
  tot = c.get('tried:both-low-weight', 0) + c.get('tried:' + fam, 0)
  v = rates.check_max_rate('C05', 'lhw-abandoned-at-cutoff-too-often',
                           c.get('miss:' + fam, 0), tot, p_max=0.01,
                           alpha=1e-7) if tot else None
  if v:
    viol.append(v)
  elif c.get('miss:' + fam):
    viol.append({'mech': 'lhw-abandoned-at-cutoff',
                 'msg': '%d moduli with two primes of weight <= 32 (set bits '
                 'not clustered) were not flagged: the search stopped at the '
                 'cutoff step with every heuristic value >= the modulus length'
                 % c['miss:' + fam], 'data': {'miss': c['miss:' + fam]}})
  fam = 'both-low-weight/clustered-top'
  if c.get('miss:' + fam):
    viol.append({'mech': 'lhw-clustered-top-bits-missed',
                 'msg': '%d of %d moduli whose low-weight primes have their '
                 'set bits clustered below the msb were not flagged' % (
                     c['miss:' + fam], c['tried:' + fam]),
                 'data': {'miss': c['miss:' + fam], 'n': c['tried:' + fam]}})
  for k in ('hit:smooth/one', 'hit:smooth/both', 'hit:smooth/one/maxpow',
            'hit:smooth/both/maxpow', 'hit:smooth/user-bound',
            'hit:smooth/cofactor', 'hit:smooth/threshold',
            'pollard_product_observed', 'decoy_instances_built',
            'lhw_corner_moduli', 'word_corner_cells', 'instance_history:1',
            'instance_history:2', 'instance_history:3'):
    if not c.get(k):
      inc.append('reach counter %s is zero' % k)
  return viol, inc
