"""C10 - small and structured discrete logs are always found.  Ground-truth
monitors around BatchDL / ExtendedBatchDL / BatchDLOfDifferences and the two
check classes; call *histories* on one curve object exercise every relation
between the cached and the requested table."""
from vp import gen
from vp.models import ec as mec

ID = 'C10'
RULE = ('one evaluation = one target point (or key pair) with known private '
        'value submitted to the batch DL search / structured-key check / '
        'difference check; distinct by (curve, call shape, private value); '
        'non-trivial = the search has to find a non-zero logarithm')
ASSUMPTIONS = ['ground truth: points are built as x*G with the model law',
               'a congruent logarithm (mod group order) is accepted as found']
EXHAUSTIVE_SUBSPACES = ['every x in [0, bound) for every listed bound on each '
                        'tiny prime-order curve, list lengths 1..64',
                        'all ordered pairs at distance < max_diff on tiny '
                        'curves for BatchDLOfDifferences']


def plan(tier, seed):
  q = tier == 'quick'
  specs = []
  for i in range(4 if q else 10):
    specs.append({'shard': 'tinydl-%d' % i, 'a3': i % 2 == 0,
                  'pmin': 200 if q else 600, 'pmax': 900 if q else 4000,
                  'hist': 10 if q else 60})
  for name in gen.NAMED:
    specs.append({'shard': 'nameddl-' + name, 'curve': name,
                  'calls': 3 if q else 12})
    specs.append({'shard': 'weakkey-' + name, 'curve': name,
                  'batches': 2 if q else 6, 'weight': 6, 'timeout': 2400})
  # (forms x keys > 1024 puts the lookup table beyond 2^21 entries)
  for name, keys in [('CURVE_SECP192R1', 44)] + ([] if q else [
      ('CURVE_SECP256K1', 32), ('CURVE_SECP521R1', 16)]):
    specs.append({'shard': 'weaklarge-' + name, 'curve': name, 'keys': keys,
                  'weight': 30, 'timeout': 2400})
  for i in range(3 if q else 8):
    specs.append({'shard': 'tinydiff-%d' % i, 'pmin': 300, 'pmax': 900})
  for j, name in enumerate(gen.NAMED):
    specs.append({'shard': 'diff-' + name, 'curve': name,
                  'maxdiffs': [2, 2 ** 8, 2 ** 12] + ([] if q else [2 ** 16]),
                  'n': 6 if q else 20})
  if not q:
    specs.append({'shard': 'diffdefault-CURVE_SECP256R1',
                  'curve': 'CURVE_SECP256R1', 'weight': 50, 'timeout': 3000})
  return specs


def _congruent(v, x, order):
  try:
    return v is not None and (int(v) - x) % order == 0
  except (TypeError, ValueError):
    return False


def _batchdl(ctx, rc, mc, xs, bound, tag):
  """One real BatchDL call with ground truth xs (all in [0, bound))."""
  pts = [(None, None) if x % mc.n == 0 else mc.mulg(x) for x in xs]
  before = getattr(rc, '_table_size', None)
  try:
    res = rc.BatchDL(pts, bound)
  except Exception as e:  # pylint: disable=broad-except
    ctx.count('evaluations', len(xs))
    ctx.violation('batchdl-raised-%s' % type(e).__name__,
                  'BatchDL(%d points, %d) raised %r' % (len(xs), bound, e),
                  {'curve': mc.name, 'xs': xs, 'bound': bound})
    return
  after = getattr(rc, '_table_size', None)
  if before is None or after is None:
    # the cache landmark is read from a private attribute; if a refactoring
    # renames it the relation is derived from the call history alone
    want_ts = int((bound * len(xs)) ** 0.5)
    prev = ctx.counters.get('max_table_requested:' + mc.name, 0)
    before, after = prev, max(prev, want_ts)
    ctx.counters['max_table_requested:' + mc.name] = after
  rel = ('rebuilt' if after > before else
         'cached-equal' if int((bound * len(xs)) ** 0.5) == before else
         'cached-larger')
  ctx.count('table:' + rel)
  for x, v in zip(xs, res):
    ctx.count('evaluations')
    if x:
      ctx.distinct(mc.name, tag, len(xs), bound, x)
    if not _congruent(v, x, mc.n):
      ctx.violation('batchdl-missed' if v is None else 'batchdl-wrong-log',
                    'BatchDL on %s: x=%d bound=%d len=%d table(before=%d,'
                    'after=%d) -> %r' % (mc.name, x, bound, len(xs), before,
                                         after, v),
                    {'curve': mc.name, 'x': x, 'bound': bound,
                     'len': len(xs), 'table_before': before})


def run_tinydl(ctx, spec):
  from vp.checks.c11 import make_repo_curve
  rng = ctx.rng('tinydl')
  mc = mec.tiny_curves(rng, 1, spec['pmin'], spec['pmax'],
                       a_minus3=spec['a3'])[0]
  n = mc.n
  try:
    ctx.sample({'curve': mc.name, 'order': n})
  except NameError:
    pass
  bounds = [1, 2, 3, 7, 16, n // 3, n - 1, n]
  # (a) fresh curve object per (bound, list length): every x
  for bound in bounds:
    for ln in (1, 2, 5, 17, 64):
      if not ctx.want('fresh/%d/%d' % (bound, ln)):
        continue
      rc = make_repo_curve(mc, -3 if spec['a3'] else None)
      xs_all = list(range(bound))
      rng.shuffle(xs_all)
      for i in range(0, len(xs_all), ln):
        chunk = xs_all[i:i + ln]
        while len(chunk) < ln:
          chunk.append(rng.below(bound))
        _batchdl(ctx, rc, mc, chunk, bound, 'fresh')
  # (b) histories on one object: warm-up calls that leave tables of various
  # sizes (perfect squares included; difference searches replace / extend the
  # table too), then an exhaustive sweep of every x with a shape whose table
  # is larger, and one whose table is smaller, than what is cached
  for h in range(spec['hist']):
    if not ctx.want('hist/%d' % h):
      continue
    rc = make_repo_curve(mc, -3 if spec['a3'] else None)
    for _ in range(rng.randint(1, 4)):
      if rng.chance(1, 2):
        md = rng.choice([2, 3, 4, 9, 16, 20, 25, 36, 64])
        d1 = rng.randint(1, n - 1)
        d2 = (d1 + rng.randint(1, md - 1)) % n or 1
        try:
          rc.BatchDLOfDifferences([mc.mulg(d1), mc.mulg(d2)], max_diff=md)
          ctx.count('history_difference_calls')
        except Exception as e:  # pylint: disable=broad-except
          ctx.violation('batchdldiff-raised-%s' % type(e).__name__, repr(e),
                        {'curve': mc.name, 'd1': d1, 'd2': d2, 'md': md})
      else:
        b0 = rng.choice([4, 9, 16, 30, 64, 100, n // 7])
        l0 = rng.choice([1, 1, 2, 4, 9])
        _batchdl(ctx, rc, mc, [rng.below(b0) for _ in range(l0)], b0, 'warm')
    for (bound, ln) in ((rng.choice([n // 2, n - 1, n]), rng.choice(
        [1, 2, 5, 17])), (rng.choice([16, 50, n // 5]), 1)):
      xs_all = list(range(bound))
      rng.shuffle(xs_all)
      for i in range(0, len(xs_all), ln):
        chunk = xs_all[i:i + ln]
        while len(chunk) < ln:
          chunk.append(rng.below(bound))
        _batchdl(ctx, rc, mc, chunk, bound, 'hist')
    ctx.count('history_sweeps')


def run_nameddl(ctx, spec):
  rng = ctx.rng('nameddl')
  name = spec['curve']
  rc, mc = gen.repo_curve(name), gen.model_curve(name)
  shapes = [(2 ** 16, 1), (2 ** 20, 3), (2 ** 12, 64), (2 ** 18, 17),
            (2 ** 22, 2), (1000, 5), (2 ** 14, 33), (2 ** 16, 2)]
  rng.shuffle(shapes)
  # one long list (beyond 256 points) in every history
  shapes.insert(rng.below(min(len(shapes), spec['calls'])),
                (2 ** 10, rng.choice([257, 300, 513])))
  seen_sizes = set()
  # a small table first (a difference search with max_diff = 256 / 64)
  md0 = rng.choice([64, 256])
  rc.BatchDLOfDifferences([mc.mulg(5), mc.mulg(7)], max_diff=md0)
  shapes = sorted(shapes[:spec['calls']], key=lambda s_: s_[0] * s_[1])
  for bound, ln in shapes[:spec['calls']]:
    if not ctx.want('%d/%d' % (bound, ln)):
      continue
    ts = int((bound * ln) ** 0.5)
    t = 2 * ts - 1
    seen_sizes.add(int(getattr(rc, '_table_size', 0) or 0))
    cand = [0, 1, bound - 1, bound // 2]
    for j in range(0, bound // t + 2):
      for d in (0, ts - 1, -(ts - 1), ts, -ts, 1, -1):
        cand.append(j * t + d)
      # logs that fall on the edge of a table cached by an earlier call
      for sz in seen_sizes:
        for d in (sz - 1, sz, sz + 1):
          cand += [j * t + d, j * t - d]
    cand = [x for x in cand if 0 <= x < bound]
    rng.shuffle(cand)
    edge = [x for x in cand if any(abs(x % t - sz) <= 1 or abs(
        (-x) % t - sz) <= 1 for sz in seen_sizes)][:ln * 6]
    cand = edge + cand[:ln * 4] + [rng.below(bound) for _ in range(ln)]
    for i in range(0, len(cand) - ln + 1, ln):
      _batchdl(ctx, rc, mc, cand[i:i + ln], bound, 'named')
  try:
    ctx.sample({'curve': name, 'shape': [bound, ln], 'xs': cand[:4]})
  except NameError:
    pass


def _forms(bits, n, rng, full):
  """Structured private keys (value, description)."""
  out = []
  words = [1, 2 ** 31, 2 ** 32 - 1, rng.bits(32) | 1, rng.bits(32) | 2 ** 31]
  shifts = list(range(0, bits - 31, 8))
  for j in (shifts if full else rng.sample(shifts, 6) + [shifts[0], shifts[-1]]):
    for w in (words if full else rng.sample(words, 2)):
      d = w << j
      if 0 < d < n:
        out.append((d, 'shift%d' % j))
  for cnt in range(2, bits // 32 + 1):
    for w in (words if full else rng.sample(words, 2)):
      d = w * sum(1 << (32 * i) for i in range(cnt))
      if 0 < d < n:
        out.append((d, 'repeat%d' % cnt))
  return out


def run_weakkey(ctx, spec):
  from paranoid_crypto.lib import ec_single_checks
  rng = ctx.rng('weakkey')
  name = spec['curve']
  mc = gen.model_curve(name)
  n, bits = mc.n, mc.n.bit_length()
  forms = _forms(bits, n, rng, ctx.tier != 'quick')
  rng.shuffle(forms)
  chk = ec_single_checks.CheckWeakECPrivateKey()
  per = max(1, min(10, len(forms) // spec['batches']))
  done = 0
  for b in range(spec['batches']):
    batch = forms[b * per:(b + 1) * per]
    if not batch or not ctx.want('batch%d' % b):
      continue
    # vary the batch size (the table size depends on it): add healthy keys
    healthy = [rng.below(n - 1) + 1 for _ in range(rng.choice([0, 1, 3]))]
    keys = [gen.ec_key_from_priv(name, d) for d, _ in batch]
    keys += [gen.ec_key_from_priv(name, d) for d in healthy]
    order = list(range(len(keys)))
    rng.shuffle(order)
    try:
      chk.Check([keys[i] for i in order])
    except Exception as e:  # pylint: disable=broad-except
      ctx.violation('weakkey-check-raised-%s' % type(e).__name__, repr(e),
                    {'curve': name})
      continue
    for (d, desc), key in zip(batch, keys):
      ctx.count('evaluations')
      ctx.count('form:' + desc.rstrip('0123456789'))
      ctx.distinct(name, d)
      ent = gen.entries(key.test_info).get('CheckWeakECPrivateKey')
      att = gen.attached(key.test_info).get('DISCRETE_LOG')
      if not ent or not ent[0] or not key.test_info.weak:
        ctx.violation('structured-key-not-flagged',
                      '%s private key %x (%s) not flagged (batch of %d)' %
                      (name, d, desc, len(keys)),
                      {'curve': name, 'd': d, 'form': desc})
      elif att is None or (int(att, 16) - d) % n != 0:
        ctx.violation('structured-key-wrong-log',
                      '%s private key %x (%s) flagged with log %r' %
                      (name, d, desc, att), {'curve': name, 'd': d})
      else:
        done += 1
  ctx.count('structured_keys_found', done)
  try:
    ctx.sample({'curve': name, 'private_key': forms[0][0], 'form': forms[0][1]})
  except NameError:
    pass


def run_weaklarge(ctx, spec):
  """One large CheckWeakECPrivateKey batch (lookup table beyond 2^21 entries),
  then smaller searches of every kind on the same curve object: a table that
  is released, shrunk or replaced must take its size marker with it."""
  from paranoid_crypto.lib import ec_aggregate_checks
  from paranoid_crypto.lib import ec_single_checks
  rng = ctx.rng('weaklarge')
  name = spec['curve']
  mc = gen.model_curve(name)
  rc = gen.repo_curve(name)
  n, bits = mc.n, mc.n.bit_length()
  forms = _forms(bits, n, rng, False)
  rng.shuffle(forms)
  chk = ec_single_checks.CheckWeakECPrivateKey()

  def judge(batch, healthy, stage):
    keys = [gen.ec_key_from_priv(name, d) for d, _ in batch]
    keys += [gen.ec_key_from_priv(name, d) for d in healthy]
    order = list(range(len(keys)))
    rng.shuffle(order)
    try:
      chk.Check([keys[i] for i in order])
    except Exception as e:  # pylint: disable=broad-except
      ctx.violation('weakkey-check-raised-%s' % type(e).__name__, repr(e),
                    {'curve': name, 'stage': stage})
      return
    for (d, desc), key in zip(batch, keys):
      ctx.count('evaluations')
      ctx.distinct(name, stage, d)
      ent = gen.entries(key.test_info).get('CheckWeakECPrivateKey')
      att = gen.attached(key.test_info).get('DISCRETE_LOG')
      if not ent or not ent[0] or att is None or (int(att, 16) - d) % n:
        ctx.violation('structured-key-not-flagged/after-large-batch'
                      if stage != 'large' else 'structured-key-not-flagged',
                      '%s private key %x (%s) not flagged with its log in '
                      'stage %s (batch of %d)' % (name, d, desc, stage,
                                                  len(keys)),
                      {'curve': name, 'd': d, 'stage': stage})
      else:
        ctx.count('structured_keys_found')

  if not ctx.want('large'):
    return
  big = spec['keys']
  judge(forms[:3], [rng.below(n - 1) + 1 for _ in range(big - 3)], 'large')
  ctx.count('large_weakkey_batches')
  ctx.maxc('largest_table_entries', len(getattr(rc, '_table', None) or ()))
  judge(forms[3:8], [], 'small-after-large')
  judge(forms[8:10], [rng.below(n - 1) + 1 for _ in range(big - 2)],
        'large-again')
  _batchdl(ctx, rc, mc, [0, 1, 12345, 2 ** 20 - 1], 2 ** 20, 'after-large')
  base = rng.below(n - 10 ** 6) + 1
  ds = [base, base + 1000, rng.below(n - 1) + 1, base + 1]
  keys = [gen.ec_key_from_priv(name, d) for d in ds]
  ec_aggregate_checks.CheckECKeySmallDifference(max_diff=1024).Check(keys)
  flags = [bool((gen.entries(k.test_info).get('CheckECKeySmallDifference') or
                 (False,))[0]) for k in keys]
  ctx.count('evaluations', 4)
  if flags != [True, True, False, True]:
    ctx.violation('close-pair-missed/after-large-batch',
                  '%s: keys at distances 0/1000/1 from a base after a large '
                  'weak-key batch: flags %r' % (name, flags), {'curve': name})
  ctx.sample({'curve': name, 'large_batch': big})


def _diff_strings_ok(res):
  return all(v is None or isinstance(v, str) for v in res)


def run_tinydiff(ctx, spec):
  from vp.checks.c11 import make_repo_curve
  rng = ctx.rng('tinydiff')
  mc = mec.tiny_curves(rng, 1, spec['pmin'], spec['pmax'])[0]
  n = mc.n
  try:
    ctx.sample({'curve': mc.name, 'order': n})
  except NameError:
    pass
  for md in (2, 3, 8, 31, n // 5):
    rc = make_repo_curve(mc)
    if not ctx.want('md%d' % md):
      continue
    # batches of keys; truth: pairs with 0 < |d1-d2| (mod n, either sign) < md
    for rep in range(25):
      # every small shape of (batch, history list): 1 vs 1, 1 vs 2, 2 vs 1...
      ln = rng.choice([1, 1, 2, 2, 3, 5, 9])
      ds = [rng.randint(1, n - 1) for _ in range(ln)]
      # plant structure
      k = rng.below(5) if ln >= 2 else 4
      if k == 0:
        ds[1] = ds[0]                                  # identical keys
      elif k == 1:
        ds[1] = (ds[0] + rng.randint(1, md - 1)) % n or 1
      elif k == 2 and ln >= 3:
        ds[2] = ds[0]
        ds[1] = (ds[0] + md - 1) % n or 1
      nother = rng.choice([0, 0, 1, 1, 2, 3])
      others = [rng.randint(1, n - 1) for _ in range(nother)]
      ctx.count('diff_shape:%d-vs-%d' % (min(ln, 3), min(nother, 2)))
      if others and rng.chance(1, 2):
        others[0] = (ds[-1] - rng.randint(1, md - 1)) % n or 1
      pts = [mc.mulg(d) for d in ds]
      opts = [mc.mulg(d) for d in others]
      try:
        res = rc.BatchDLOfDifferences(list(pts), list(opts), max_diff=md)
      except Exception as e:  # pylint: disable=broad-except
        ctx.count('evaluations')
        ctx.violation('batchdldiff-raised-%s' % type(e).__name__,
                      '%r' % (e,), {'curve': mc.name, 'ds': ds,
                                    'others': others, 'md': md})
        continue

      def close(a, b):
        return a != b and min((a - b) % n, (b - a) % n) < md
      for i, d in enumerate(ds):
        ctx.count('evaluations')
        ctx.distinct(mc.name, md, tuple(ds), tuple(others), i)
        partners = [e for j, e in enumerate(ds) if j != i] + others
        must = any(close(d, e) for e in partners)
        only_dups = not must and all(
            e == d or min((d - e) % n, (e - d) % n) >= 2 * md + 4
            for e in partners)
        if must:
          ctx.count('close_pairs')
          if res[i] is None:
            ctx.violation('small-difference-missed',
                          'key %d of %r (others %r) max_diff=%d not flagged' %
                          (d, ds, others, md), {'ds': ds, 'md': md})
        elif only_dups and d in partners:
          ctx.count('identical_keys')
          if res[i] is not None:
            ctx.violation('identical-keys-flagged',
                          'duplicate key %d of %r flagged: %r' % (d, ds, res[i]),
                          {'ds': ds, 'md': md})


def run_diff(ctx, spec):
  from paranoid_crypto.lib import ec_aggregate_checks
  rng = ctx.rng('diff')
  name = spec['curve']
  mc = gen.model_curve(name)
  n = mc.n
  for md in spec['maxdiffs']:
    chk = ec_aggregate_checks.CheckECKeySmallDifference(max_diff=md)
    for rep in range(spec['n']):
      if not ctx.want('md%d/%d' % (md, rep)):
        continue
      base = rng.below(n - 2 * md - 10) + md + 5
      kind = rep % 6
      prev = [m_ for m_ in spec['maxdiffs'] if m_ < md]
      delta = {0: 1, 1: md - 1, 2: rng.randint(1, md - 1), 3: 0,
               4: md + rng.randint(1000, 2 ** 40), 5: rng.randint(1, md - 1)}[kind]
      if prev and rep % 2 and kind in (0, 2, 5):
        # exactly the size of the table an earlier, smaller search left behind
        delta = rng.choice(prev) + rng.choice([0, 0, -1, 1])
        delta = max(1, min(delta, md - 1))
      ds = [base, base + delta]
      if kind == 5:
        ds = [base + delta, base]      # negative difference, other order
      extra = [rng.below(n - 1) + 1 for _ in range(rng.choice([0, 1, 4]))]
      # copies of a key of the pair (two certificates, one key): a copy is
      # as close to the partner as the original
      dups = []
      if 0 < delta < md and rep % 3 == 0:
        dups = [ds[rng.below(2)] for _ in range(rng.choice([1, 2]))]
        ctx.count('close_pairs_with_duplicates')
      alld = ds + extra + dups
      keys = [gen.ec_key_from_priv(name, d) for d in alld]
      # a healthy key on another curve in the same batch
      other = 'CURVE_SECP256K1' if name != 'CURVE_SECP256K1' else \
          'CURVE_SECP224R1'
      keys.append(gen.ec_key_from_priv(other, rng.below(2 ** 200) + 1))
      order = list(range(len(keys)))
      rng.shuffle(order)
      try:
        chk.Check([keys[i] for i in order])
      except Exception as e:  # pylint: disable=broad-except
        ctx.violation('smalldiff-check-raised-%s' % type(e).__name__, repr(e),
                      {'curve': name, 'ds': ds, 'md': md})
        continue
      for j in range(len(dups)):
        kd = keys[len(ds) + len(extra) + j]
        ent = gen.entries(kd.test_info).get('CheckECKeySmallDifference')
        ctx.count('evaluations')
        if not (ent and ent[0]):
          ctx.violation('small-difference-missed/duplicate',
                        '%s: a second copy of a key that is %d < max_diff %d '
                        'away from another key of the batch is not flagged' % (
                            name, delta, md), {'curve': name, 'md': md})
      for i in (0, 1):
        ctx.count('evaluations')
        ctx.distinct(name, md, ds[i], kind)
        ent = gen.entries(keys[i].test_info).get('CheckECKeySmallDifference')
        flagged = bool(ent and ent[0])
        if 0 < delta < md:
          ctx.count('close_pairs')
          if not flagged or not keys[i].test_info.weak:
            ctx.violation('small-difference-missed',
                          '%s keys %x and %x (diff %d < max_diff %d): key %d '
                          'not flagged' % (name, ds[0], ds[1], delta, md, i),
                          {'curve': name, 'ds': ds, 'md': md})
        elif delta == 0:
          ctx.count('identical_keys')
          if flagged:
            ctx.violation('identical-keys-flagged',
                          '%s identical keys flagged' % name,
                          {'curve': name, 'ds': ds, 'md': md})
  try:
    ctx.sample({'curve': name, 'max_diff': md, 'private_keys': ds})
  except NameError:
    pass


def run_diffdefault(ctx, spec):
  """Thorough only: the true default max_diff (2^24); pays for the table once."""
  from paranoid_crypto.lib import ec_aggregate_checks
  rng = ctx.rng('diffdefault')
  name = spec['curve']
  mc = gen.model_curve(name)
  n = mc.n
  chk = ec_aggregate_checks.CheckECKeySmallDifference()
  md = 2 ** 24
  pairs = []
  for delta in (1, md - 1, md // 2 + 3, rng.randint(1, md - 1), 0):
    base = rng.below(n - 2 * md) + md
    pairs.append((base, base + delta, delta))
  keys = []
  for a, b, _ in pairs:
    keys += [gen.ec_key_from_priv(name, a), gen.ec_key_from_priv(name, b)]
  chk.Check(keys)
  for i, (a, b, delta) in enumerate(pairs):
    for j in (0, 1):
      ctx.count('evaluations')
      ctx.distinct(name, 'default', a, b, j)
      ent = gen.entries(keys[2 * i + j].test_info).get(
          'CheckECKeySmallDifference')
      flagged = bool(ent and ent[0])
      if delta and not flagged:
        ctx.violation('small-difference-missed', 'default max_diff: diff %d '
                      'not flagged' % delta, {'curve': name, 'delta': delta})
      if delta:
        ctx.count('close_pairs')
      if not delta:
        ctx.count('identical_keys')
        if flagged:
          ctx.violation('identical-keys-flagged', 'default max_diff',
                        {'curve': name})


def run(ctx, spec):
  s = spec['shard']
  for prefix, fn in (('tinydl', run_tinydl), ('nameddl', run_nameddl),
                     ('weaklarge', run_weaklarge),
                     ('weakkey', run_weakkey), ('tinydiff', run_tinydiff),
                     ('diffdefault', run_diffdefault), ('diff-', run_diff)):
    if s.startswith(prefix):
      return fn(ctx, spec)


def finalize(agg, tier):
  c = agg['counters']
  inc = []
  for k in ('table:rebuilt', 'table:cached-larger', 'history_difference_calls',
            'history_sweeps',
            'structured_keys_found', 'close_pairs', 'identical_keys',
            'form:shift', 'form:repeat', 'large_weakkey_batches',
            'diff_shape:1-vs-1', 'diff_shape:1-vs-2', 'diff_shape:2-vs-1',
            'close_pairs_with_duplicates'):
    if not c.get(k):
      inc.append('reach counter %s is zero' % k)
  return [], inc
