"""Single entry point: python -m vp.run <Cxx> [--tier quick|thorough] [--replay f].

Exit 0: property held on everything observed (known findings are printed as
KNOWN-FINDING lines).  Exit 1: VIOLATION line(s).  Exit 2: inconclusive (a
deciding monitor was not reached, substrate failure, watchdog) - no VIOLATION
line is printed in that case.
"""
import argparse
import hashlib
import json
import os
import shutil
import sys
import time

from vp import findings
from vp import harness

VERIF = harness.VERIF
EVIDENCE = os.path.join(VERIF, 'evidence')
REPLAY = os.path.join(VERIF, '.build', 'replay')


def aggregate(results):
  agg = {'counters': {}, 'digests': set(), 'samples': [], 'violations': [],
         'viol_mechs': {}, 'errors': [], 'shards': len(results),
         'records': []}
  for r in results:
    for k, v in r['counters'].items():
      if k.startswith('max:'):
        agg['counters'][k] = max(agg['counters'].get(k, v), v)
      elif k.startswith('min:'):
        agg['counters'][k] = min(agg['counters'].get(k, v), v)
      else:
        agg['counters'][k] = agg['counters'].get(k, 0) + v
    agg['digests'].update(r['digests'])
    for s in r['samples']:
      if len(agg['samples']) < 8:
        agg['samples'].append(s)
    for v in r['violations']:
      v = dict(v)
      v['shard'] = r['shard']
      agg['violations'].append(v)
    for rec in r.get('records', []):
      agg['records'].append((r['shard'], rec))
    for m, n in r.get('viol_mechs', {}).items():
      agg['viol_mechs'][m] = agg['viol_mechs'].get(m, 0) + n
    if r.get('error'):
      e = dict(r['error'])
      e['shard'] = r['shard']
      agg['errors'].append(e)
  return agg


def write_replay(prop, tier, seed, spec, v):
  os.makedirs(REPLAY, exist_ok=True)
  h = hashlib.sha256(json.dumps([v['mech'], v.get('case'), v.get('shard')],
                                sort_keys=True).encode()).hexdigest()[:12]
  path = os.path.join(REPLAY, '%s-%s.json' % (prop, h))
  json.dump({'property': prop, 'tier': tier, 'seed': seed, 'spec': spec,
             'case': v.get('case'), 'violation': v}, open(path, 'w'), indent=1)
  return path


def main(argv=None):
  ap = argparse.ArgumentParser()
  ap.add_argument('prop')
  ap.add_argument('--tier', default=os.environ.get('VERIF_TIER', 'quick'))
  ap.add_argument('--replay')
  ap.add_argument('--case-only', action='store_true',
                  help='with --replay: run only the recorded case of the shard')
  ap.add_argument('--jobs', type=int,
                  default=int(os.environ.get('VERIF_JOBS', '16')))
  ap.add_argument('--only', help='run only shards whose name contains this')
  ap.add_argument('--keep', action='store_true')
  args = ap.parse_args(argv)
  prop = args.prop.upper()
  tier = args.tier if args.tier in ('quick', 'thorough') else 'quick'
  seed = int(os.environ.get('VERIF_SEED', '0') or 0)
  t0 = time.time()
  mod = harness.load_check(prop)

  if args.replay:
    rp = json.load(open(args.replay))
    spec = dict(rp['spec'])
    # the whole shard is re-run by default: generators draw from one stream
    # per shard and several monitors depend on earlier calls of the process.
    spec['only_case'] = rp.get('case') if args.case_only else None
    tier, seed = rp['tier'], rp['seed']
    specs = [spec]
  else:
    specs = mod.plan(tier, seed)
    if args.only:
      specs = [s for s in specs if args.only in s['shard']]
  by_shard = {s['shard']: s for s in specs}

  results, run_dir = harness.run_shards(prop, tier, seed, specs, jobs=args.jobs)
  agg = aggregate(results)

  extra_viol, inconclusive = [], []
  if not args.replay and not args.only:
    fin = getattr(mod, 'finalize', None)
    if fin:
      ev, inc = fin(agg, tier)
      extra_viol, inconclusive = list(ev or []), list(inc or [])
  for v in extra_viol:
    v.setdefault('shard', None)
    v.setdefault('case', None)
  violations = agg['violations'] + extra_viol

  known = findings.load()
  known_seen, unknown = {}, []
  for v in violations:
    kid = findings.classify(prop, v, known)
    if kid:
      k = known_seen.setdefault(kid, {'n': 0, 'what': v['msg'], 'mechs': set()})
      if v['mech'] not in k['mechs']:
        k['mechs'].add(v['mech'])
        k['n'] += max(1, agg['viol_mechs'].get(v['mech'], 1))
    else:
      unknown.append(v)

  for e in agg['errors']:
    inconclusive.append('%s in shard %s: %s' % (e['kind'], e['shard'],
                                                e['msg'][-400:]))

  lines = []
  for kid, k in sorted(known_seen.items()):
    ent = known[kid]
    lines.append('KNOWN-FINDING: property=%s %s %s (seen %d; e.g. %s)' % (
        prop, kid, ent['description'], k['n'], k['what'][:200]))
  seen_mech = set()
  nviol = 0
  for v in unknown:
    if v['mech'] in seen_mech or nviol >= 10:
      continue
    seen_mech.add(v['mech'])
    nviol += 1
    path = write_replay(prop, tier, seed, by_shard.get(v.get('shard'), {}), v)
    lines.append('VIOLATION property=%s replay=%s' % (prop, path))
    lines.append('  mechanism=%s case=%s: %s' % (v['mech'], v.get('case'),
                                                v['msg'][:400]))

  status = 'violated' if unknown else ('inconclusive' if inconclusive
                                       else 'held')
  c = agg['counters']
  evidence = {
      'property_id': prop, 'tier': tier, 'seed': seed, 'level': 'exploration',
      'coverage': {
          'evaluations': int(c.get('evaluations', 0)),
          'distinct_nontrivial': len(agg['digests']),
          'rule': getattr(mod, 'RULE', ''),
          'samples': agg['samples'] or ['(none)'],
          'exhaustive': bool(getattr(mod, 'EXHAUSTIVE', False)),
          'exhaustive_subspaces': getattr(mod, 'EXHAUSTIVE_SUBSPACES', []),
          'observed': {k: v for k, v in sorted(c.items())},
          'shards': agg['shards'],
          'verdict': status,
          'inconclusive_reasons': inconclusive[:10],
          'known_findings_seen': {k: v['n'] for k, v in known_seen.items()},
          'violation_mechanisms': agg['viol_mechs'],
      },
      'assumptions': list(getattr(mod, 'ASSUMPTIONS', [])),
      'wall_s': round(time.time() - t0, 2),
      'violations': len(unknown),
  }
  if not args.replay and not args.only:
    evdir = EVIDENCE
    if os.path.realpath(os.environ.get('VERIF_REPO', '/repo')) != '/repo':
      # runs against a scratch copy (mutation self-test) never touch the
      # committed evidence
      evdir = os.path.join(VERIF, '.build', 'evidence-scratch')
    os.makedirs(evdir, exist_ok=True)
    with open(os.path.join(evdir, '%s.json' % prop), 'w') as f:
      json.dump(evidence, f, indent=1, sort_keys=True)
      f.write('\n')

  for l in lines:
    print(l)
  print('%s property=%s tier=%s seed=%d shards=%d evaluations=%d distinct=%d '
        'wall=%.1fs' % (status.upper(), prop, tier, seed, agg['shards'],
                        evidence['coverage']['evaluations'],
                        len(agg['digests']), time.time() - t0))
  if status == 'inconclusive':
    for r in inconclusive[:10]:
      print('INCONCLUSIVE property=%s reason=%s' % (prop, r))
  if not args.keep:
    shutil.rmtree(run_dir, ignore_errors=True)
  sys.stdout.flush()
  return {'held': 0, 'violated': 1, 'inconclusive': 2}[status]


if __name__ == '__main__':
  sys.exit(main())
