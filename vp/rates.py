"""Rate monitors for heuristic / statistical claims (DESIGN 2.3, C08)."""
import math


def binom_cdf(k, n, p):
  """P[Bin(n, p) <= k], exact summation in floats (n is small here)."""
  if k < 0:
    return 0.0
  if k >= n:
    return 1.0
  s = 0.0
  for i in range(0, k + 1):
    s += math.exp(math.lgamma(n + 1) - math.lgamma(i + 1) -
                  math.lgamma(n - i + 1) + i * math.log(p) +
                  (n - i) * math.log1p(-p)) if 0 < p < 1 else float(
                      (p == 0 and i == 0) or (p == 1 and i == n))
  return min(1.0, s)


def binom_sf(k, n, p):
  """P[Bin(n, p) >= k]."""
  return 1.0 - binom_cdf(k - 1, n, p)


def check_min_rate(prop, mech, successes, n, p_min, alpha=1e-7):
  """Violation dict if `successes` of n is implausible for a rate >= p_min."""
  if n <= 0:
    return None
  tail = binom_cdf(successes, n, p_min)
  if tail < alpha:
    return {'mech': mech, 'msg': '%d of %d succeeded; a success rate >= %.3g '
            'has probability %.2e of so few' % (successes, n, p_min, tail),
            'data': {'successes': successes, 'n': n, 'p_min': p_min}}
  return None


def check_max_rate(prop, mech, hits, n, p_max, alpha=1e-9):
  """Violation dict if `hits` of n is implausible for a rate <= p_max."""
  if n <= 0:
    return None
  tail = binom_sf(hits, n, p_max)
  if tail < alpha:
    return {'mech': mech, 'msg': '%d of %d hits; a rate <= %.3g has '
            'probability %.2e of so many' % (hits, n, p_max, tail),
            'data': {'hits': hits, 'n': n, 'p_max': p_max}}
  return None
