"""Mixed artifact batches with ground truth, shared by C01/C07/C16/C17/C18."""
from vp import gen
from vp import rsagen

CHEAP_WEAK = ['fermat', 'hilo', 'upperdiff', 'unseeded', 'word', 'swap',
              'bothpattern', 'keypair', 'small', 'exponent', 'shared']
# LowHammingWeight needs up to 30 s on these
SLOW_KINDS = {'pow2', 'pow2m1', 'pow2p1', 'square', 'sq1mod8', 'lhw', 'cube'}


def rsa_artifact(rng, kind, pool=None):
  """Returns dict(n=, e=, kind=, p=, q=) for one modulus of the given kind."""
  e = 65537
  p = q = None
  if kind == 'healthy':
    n, p, q = rsagen.healthy(rng, rng.choice([512, 768, 1024, 2048]))
  elif kind == 'healthy2048':
    n, p, q = rsagen.healthy(rng, rng.choice([2048, 2048, 3072]))
  elif kind == 'fermat':
    n, p, q, _ = rsagen.fermat_close(rng, rng.choice([64, 128, 256, 512]),
                                     rng.choice([0, 1, 50, 5000]))
  elif kind == 'hilo':
    nbits = rng.choice([256, 512])
    n, p, q = rsagen.hilo_equal(rng, nbits, nbits // 8 + 2, nbits // 8 + 2)
  elif kind == 'upperdiff':
    n, p, q = rsagen.upper_diff(rng, 384, rng.choice(rsagen.UPPER_DIFF_EXPS))
  elif kind == 'unseeded':
    from paranoid_crypto.lib.data import unseeded_rands
    while True:
      v = rng.choice(sorted(unseeded_rands.size_unseeded_map[512]))
      got = rsagen.unseeded_near(rng, v, 512, rng.below(3))
      if got:
        n, p, q = got
        break
  elif kind == 'word':
    p, _ = rsagen.patterned_prime(rng, 512, rng.choice([3, 8, 16, 31, 64]))
    q = rsagen.rand_prime_top2(rng, 512)
    n = p * q
  elif kind == 'swap':
    p, _ = rsagen.patterned_prime(rng, 512, rng.choice([3, 5, 7]), swap=16)
    q = rsagen.rand_prime_top2(rng, 512)
    n = p * q
  elif kind == 'bothpattern':
    p = rsagen.both_pattern_prime(rng, 512, rng.choice([3, 8, 24, 64]))
    q = rsagen.both_pattern_prime(rng, 512, rng.choice([5, 16, 32]))
    n = p * q
  elif kind == 'lhw':
    p = rsagen.low_weight_prime(rng, 512, rng.choice([3, 8, 16]))
    q = rsagen.low_weight_prime(rng, 512, rng.choice([3, 8, 16]))
    n = p * q
  elif kind == 'smooth':
    n, p, q = rsagen.shared_smooth(rng, 1024, rng.chance(1, 3))
  elif kind == 'keypair':
    from paranoid_crypto.lib import keypair_generator
    p, q = keypair_generator.Generator(
        bytes([rng.below(256)] + [0] * 31)).generate_key(2048)
    n = p * q
  elif kind == 'roca':
    M = 1
    for pr in (3, 5, 7, 11, 13, 17, 19, 23, 29, 31, 37, 41, 43, 47, 53, 59, 61,
               67, 71, 73, 79, 83, 89, 97, 101, 103, 107, 109, 113, 127, 131,
               137, 139, 149, 151, 157, 163, 167, 173):
      M *= pr
    def rp():
      while True:
        c = rng.bits(256 - M.bit_length()) * M + pow(65537, rng.bits(60), M)
        if c.bit_length() > 200 and rsagen.is_prime(c):
          return int(c)
    p, q = rp(), rp()
    n = p * q
  elif kind == 'small':
    n, p, q = rsagen.healthy(rng, rng.choice([64, 65, 128, 512, 1024, 2046]))
  elif kind == 'exponent':
    n, p, q = rsagen.healthy(rng, 1024)
    e = rng.choice([0, 1, 3, 17, 65536, 65539, 2 ** 32 + 1, 2 ** 70 + 1])
  elif kind == 'shared':
    pool = pool if pool is not None else []
    if not pool or rng.chance(1, 3):
      pool.append(rng.prime(rng.choice([64, 256, 512])))
    p = rng.choice(pool)
    q = rng.prime(p.bit_length())
    n = p * q
  elif kind == 'n1shared':
    f = rng.prime(160) if not pool or rng.chance(1, 2) else pool[0] | 1
    f = f if f.bit_length() >= 100 else rng.prime(160)
    while True:
      c = f * (rng.bits(400) | 1) * 2 + 1
      if c.bit_length() >= 64:
        n = c
        break
  elif kind in rsagen.DEGENERATE_KINDS:
    n = rsagen.degenerate(rng, kind, rng.choice([64, 65, 100, 255, 256, 512,
                                                  1024, 2048]))
  else:
    raise ValueError(kind)
  return {'n': int(n), 'e': e, 'kind': kind, 'p': p, 'q': q}


def rsa_mixed_batch(rng, size, slow_budget=1, kinds=None, with_healthy=True):
  """A batch of artifacts mixing families; nested / duplicate moduli and a
  prime dividing a neighbour are planted when the batch is large enough."""
  kinds = kinds or (CHEAP_WEAK + rsagen.DEGENERATE_KINDS + ['lhw', 'n1shared',
                                                            'roca'])
  pool = []
  arts = []
  slow = 0
  for _ in range(size):
    for _try in range(20):
      k = rng.choice(kinds + (['healthy'] * 4 if with_healthy else []))
      if k in SLOW_KINDS:
        if slow >= slow_budget:
          continue
        slow += 1
      break
    else:
      k = 'healthy'
    arts.append(rsa_artifact(rng, k, pool))
  if size >= 3 and rng.chance(1, 2):
    a = rng.choice(arts)
    arts.append(dict(a, kind=a['kind'] + '+duplicate'))
  if size >= 3 and rng.chance(1, 2):
    a = rng.choice(arts)
    if a['n'].bit_length() <= 2100 and a['kind'] not in SLOW_KINDS:
      arts.append({'n': a['n'] * rng.prime(64), 'e': 65537,
                   'kind': 'nested-multiple', 'p': None, 'q': None})
  if size >= 4 and rng.chance(1, 3):
    pr = rng.prime(128)
    arts.append({'n': pr, 'e': 65537, 'kind': 'prime', 'p': None, 'q': None})
    arts.append({'n': pr * rng.prime(128), 'e': 65537,
                 'kind': 'multiple-of-neighbour-prime', 'p': None, 'q': None})
  rng.shuffle(arts)
  return arts


def rsa_keys(arts, pad=0):
  return [gen.rsa_key(a['n'], a['e'], pad=pad) for a in arts]


def install_small_maxdiff(max_diff=2 ** 8):
  """Configures the aggregate EC check through its documented constructor
  parameter, exactly as upstream's own tests do, and rebuilds the registry."""
  from paranoid_crypto.lib import ec_aggregate_checks
  from paranoid_crypto.lib import paranoid
  ec_aggregate_checks.CheckECKeySmallDifference.__init__.__defaults__ = (
      max_diff,)
  paranoid._check_factory.clear()
