"""Mixed artifact batches with ground truth, shared by C01/C07/C16/C17/C18."""
from vp import gen
from vp import rsagen

CHEAP_WEAK = ['fermat', 'hilo', 'upperdiff', 'unseeded', 'word', 'swap',
              'bothpattern', 'keypair', 'small', 'exponent', 'shared']
# LowHammingWeight needs up to 30 s on these
SLOW_KINDS = {'pow2', 'pow2m1', 'pow2p1', 'square', 'sq1mod8', 'lhw', 'cube'}


def rsa_artifact(rng, kind, pool=None):
  """Returns dict(n=, e=, kind=, p=, q=) for one modulus of the given kind."""
  e = 65537
  p = q = None
  if kind == 'healthy':
    n, p, q = rsagen.healthy(rng, rng.choice([512, 768, 1024, 2048]))
  elif kind == 'healthy2048':
    n, p, q = rsagen.healthy(rng, rng.choice([2048, 2048, 3072]))
  elif kind == 'fermat':
    n, p, q, _ = rsagen.fermat_close(rng, rng.choice([64, 128, 256, 512]),
                                     rng.choice([0, 1, 50, 5000]))
  elif kind == 'hilo':
    nbits = rng.choice([256, 512])
    n, p, q = rsagen.hilo_equal(rng, nbits, nbits // 8 + 2, nbits // 8 + 2)
  elif kind == 'upperdiff':
    n, p, q = rsagen.upper_diff(rng, 384, rng.choice(rsagen.UPPER_DIFF_EXPS))
  elif kind == 'unseeded':
    from paranoid_crypto.lib.data import unseeded_rands
    while True:
      v = rng.choice(sorted(unseeded_rands.size_unseeded_map[512]))
      got = rsagen.unseeded_near(rng, v, 512, rng.below(3))
      if got:
        n, p, q = got
        break
  elif kind == 'word':
    p, _ = rsagen.patterned_prime(rng, 512, rng.choice([3, 8, 16, 31, 64]))
    q = rsagen.rand_prime_top2(rng, 512)
    n = p * q
  elif kind == 'word-large':
    # only the largest pattern size that fits the modulus factors these (low
    # deviation of 56..80 bits): sensitive to per-key handling of size lists
    p, _ = rsagen.patterned_prime(rng, 1024, 127,
                                  dev_bits=rng.choice([56, 64, 72, 80]))
    q = rsagen.rand_prime_top2(rng, 1024)
    n = p * q
  elif kind.split(':')[0] in ('topones', 'topzeros'):
    # moduli next to a power of two (all-one / all-zero leading bits) at bit
    # lengths around the sizes where checks switch scaling: float conversion
    # and isqrt/iroot boundaries
    L = int(kind.split(':')[1]) if ':' in kind else rng.choice(
        [1023, 1024, 1025, 1026, 1027, 2047, 2048, 3072, 4096, 768, 770])
    kind = kind.split(':')[0]
    hb = L // 2
    if kind == 'topones':
      p = (1 << (L - hb)) - 1 - 2 * rng.below(2000)
      q = (1 << hb) - 1 - 2 * rng.below(2000)
      while not rsagen.is_prime(p):
        p -= 2
      while not rsagen.is_prime(q) or q == p:
        q -= 2
    else:
      p = rsagen.next_prime((1 << (L - hb - 1)) + rng.below(2 ** 40))
      q = rsagen.next_prime(((1 << (L - 1)) // p) + 1 + rng.below(2 ** 20))
    n = p * q
  elif kind == 'tiny':
    n, p, q = rsagen.healthy(rng, rng.choice([256, 512, 768]))
  elif kind == 'swap':
    p, _ = rsagen.patterned_prime(rng, 512, rng.choice([3, 5, 7]), swap=16)
    q = rsagen.rand_prime_top2(rng, 512)
    n = p * q
  elif kind == 'bothpattern':
    p = rsagen.both_pattern_prime(rng, 512, rng.choice([3, 8, 24, 64]))
    q = rsagen.both_pattern_prime(rng, 512, rng.choice([5, 16, 32]))
    n = p * q
  elif kind == 'lhw':
    p = rsagen.low_weight_prime(rng, 512, rng.choice([3, 8, 16]))
    q = rsagen.low_weight_prime(rng, 512, rng.choice([3, 8, 16]))
    n = p * q
  elif kind == 'smooth-both':
    # weak for the Pollard check *without* a factorisation (verdict-only path)
    n, p, q = rsagen.shared_smooth_checked(rng, 1024, True)
  elif kind == 'smooth':
    n, p, q = rsagen.shared_smooth(rng, 1024, rng.chance(1, 3))
  elif kind == 'keypair':
    from paranoid_crypto.lib import keypair_generator
    p, q = keypair_generator.Generator(
        bytes([rng.below(256)] + [0] * 31)).generate_key(2048)
    n = p * q
  elif kind == 'keypair-collision':
    # shares its 64 most significant bits with a key the shipped table covers
    from paranoid_crypto.lib import keypair_generator
    p0, q0 = keypair_generator.Generator(
        bytes([rng.below(256)] + [0] * 31)).generate_key(2048)
    n0 = p0 * q0
    cut = rng.choice([8, 64, 1000, 1900])
    n = (n0 >> cut << cut) | rng.bits(cut) | 1
    p = q = None
    return {'n': int(n), 'e': e, 'kind': kind, 'p': None, 'q': None,
            'genuine': {'n': int(n0), 'e': e, 'kind': 'keypair', 'p': int(p0),
                        'q': int(q0)}}
  elif kind in ('pollard-below-gate', 'pollard-weak-small'):
    # n - 1 divisible by a 2^20-smooth S: about 2^50 (below the 2^60 gate of
    # the Pollard check) or about 2^70 with p - 1 fully smooth (weak)
    target = 50 if kind == 'pollard-below-gate' else 70
    while True:
      S = 2
      while S.bit_length() < target:
        S *= rng.choice(rsagen.small_primes()[5:3000])
      if S.bit_length() <= target + 4:
        break
    def cong1(bits):
      while True:
        c = (rng.bits(bits - S.bit_length()) | (1 << (bits - S.bit_length()
                                                      - 1))) * S + 1
        if c.bit_length() == bits and rsagen.is_prime(c):
          return int(c)
    if kind == 'pollard-below-gate':
      p, q = cong1(512), cong1(512)
    else:
      p = rsagen.prime_from(rng, S, 512, True)
      q = cong1(512)
    n = p * q
  elif kind == 'roca':
    M = 1
    for pr in (3, 5, 7, 11, 13, 17, 19, 23, 29, 31, 37, 41, 43, 47, 53, 59, 61,
               67, 71, 73, 79, 83, 89, 97, 101, 103, 107, 109, 113, 127, 131,
               137, 139, 149, 151, 157, 163, 167, 173):
      M *= pr
    def rp():
      while True:
        c = rng.bits(256 - M.bit_length()) * M + pow(65537, rng.bits(60), M)
        if c.bit_length() > 200 and rsagen.is_prime(c):
          return int(c)
    p, q = rp(), rp()
    n = p * q
  elif kind == 'small':
    n, p, q = rsagen.healthy(rng, rng.choice([64, 65, 128, 512, 1024, 2046]))
  elif kind == 'exponent':
    n, p, q = rsagen.healthy(rng, 1024)
    e = rng.choice([0, 1, 3, 17, 65536, 65539, 2 ** 32 + 1, 2 ** 70 + 1])
  elif kind == 'shared':
    pool = pool if pool is not None else []
    if not pool or rng.chance(1, 3):
      pool.append(rng.prime(rng.choice([64, 256, 512])))
    p = rng.choice(pool)
    q = rng.prime(p.bit_length())
    n = p * q
  elif kind == 'n1shared':
    f = rng.prime(160) if not pool or rng.chance(1, 2) else pool[0] | 1
    f = f if f.bit_length() >= 100 else rng.prime(160)
    while True:
      c = f * (rng.bits(400) | 1) * 2 + 1
      if c.bit_length() >= 64:
        n = c
        break
  elif kind in rsagen.DEGENERATE_KINDS:
    n = rsagen.degenerate(rng, kind, rng.choice([64, 65, 100, 255, 256, 512,
                                                  1024, 2048]))
  else:
    raise ValueError(kind)
  return {'n': int(n), 'e': e, 'kind': kind, 'p': p, 'q': q}


def rsa_mixed_batch(rng, size, slow_budget=1, kinds=None, with_healthy=True):
  """A batch of artifacts mixing families; nested / duplicate moduli and a
  prime dividing a neighbour are planted when the batch is large enough."""
  kinds = kinds or (CHEAP_WEAK + rsagen.DEGENERATE_KINDS + ['topones',
                                                            'topzeros'] +
                    ['lhw', 'n1shared',
                                                            'roca'])
  pool = []
  arts = []
  slow = 0
  for _ in range(size):
    for _try in range(20):
      k = rng.choice(kinds + (['healthy'] * 4 if with_healthy else []))
      if k in SLOW_KINDS:
        if slow >= slow_budget:
          continue
        slow += 1
      break
    else:
      k = 'healthy'
    arts.append(rsa_artifact(rng, k, pool))
  if size >= 3 and rng.chance(1, 2):
    a = rng.choice(arts)
    arts.append(dict(a, kind=a['kind'] + '+duplicate'))
  if size >= 3 and rng.chance(1, 2):
    a = rng.choice(arts)
    if a['n'].bit_length() <= 2100 and a['kind'] not in SLOW_KINDS:
      arts.append({'n': a['n'] * rng.prime(64), 'e': 65537,
                   'kind': 'nested-multiple', 'p': None, 'q': None})
  if size >= 4 and rng.chance(1, 3):
    pr = rng.prime(128)
    arts.append({'n': pr, 'e': 65537, 'kind': 'prime', 'p': None, 'q': None})
    arts.append({'n': pr * rng.prime(128), 'e': 65537,
                 'kind': 'multiple-of-neighbour-prime', 'p': None, 'q': None})
  if size >= 3 and rng.chance(1, 3):
    # a modulus whose two primes are shared with two *different* neighbours:
    # it divides the product of the others but no single one of them.
    pp = [rng.prime(rng.choice([128, 256, 512])) for _ in range(4)]
    arts.append({'n': pp[0] * pp[1], 'e': 65537, 'kind': 'covered-by-product',
                 'p': pp[0], 'q': pp[1]})
    arts.append({'n': pp[0] * pp[2], 'e': 65537, 'kind': 'shares-p',
                 'p': pp[0], 'q': pp[2]})
    arts.append({'n': pp[1] * pp[3], 'e': 65537, 'kind': 'shares-q',
                 'p': pp[1], 'q': pp[3]})
  rng.shuffle(arts)
  return arts


_NEIGHBOURS = []


def rsa_neighbours(ctx):
  """Three healthy moduli of mixed sizes (a small one first): the batch
  neighbours of the detection checks, which must judge every key by itself."""
  if not _NEIGHBOURS:
    r = ctx.rng('healthy-neighbours')
    _NEIGHBOURS.extend(rsagen.healthy(r, b)[0] for b in (256, 1024, 512))
  return _NEIGHBOURS


def rsa_in_batch(ctx, n):
  """(batch, key): the modulus at a varying position among the neighbours."""
  hs = rsa_neighbours(ctx)
  key = gen.rsa_key(n)
  pos = ctx.counters.get('evaluations', 0) % 6
  ctx.count('batch_position:%d' % pos)
  if pos >= 4:
    # the same modulus twice in one batch (two certificates, one key), a
    # healthy key between the copies: the *later* copy is the one observed
    first = gen.rsa_key(n)
    return [gen.rsa_key(h) for h in hs[:pos - 4]] + [first, gen.rsa_key(
        hs[2]), key], key
  return [gen.rsa_key(h) for h in hs[:pos]] + [key] + [
      gen.rsa_key(h) for h in hs[pos:pos + 1]], key


def rsa_decoy_instances(ctx):
  """Builds and uses instances of every parametrised RSA check with unusual
  constructor arguments (and the registry's instances) before the instance
  under observation exists: constructor state must not be shared."""
  from paranoid_crypto.lib import paranoid
  from paranoid_crypto.lib import rsa_aggregate_checks as ra
  from paranoid_crypto.lib import rsa_single_checks as rs
  r = ctx.rng('decoys')
  tiny = [gen.rsa_key(rsagen.healthy(r, 256)[0])]
  decoys = [rs.CheckFermat(max_steps=1), rs.CheckBitPatterns(pattern_sizes=[2]),
            rs.CheckContinuedFractions(bound=2), rs.CheckPollardpm1(bound=2 ** 10),
            ra.CheckGCDN1(gcd_bound=2)]
  dict(paranoid.GetRSAAllChecks())
  for d in decoys:
    d.Check([type(k)().FromString(k.SerializeToString()) for k in tiny] * 2)
  ctx.count('decoy_instances_built', len(decoys))
  return decoys


def rsa_keys(arts, pad=0):
  return [gen.rsa_key(a['n'], a['e'], pad=pad) for a in arts]


def install_small_maxdiff(max_diff=2 ** 8):
  """Configures the aggregate EC check through its documented constructor
  parameter, exactly as upstream's own tests do, and rebuilds the registry."""
  from paranoid_crypto.lib import ec_aggregate_checks
  from paranoid_crypto.lib import paranoid
  ec_aggregate_checks.CheckECKeySmallDifference.__init__.__defaults__ = (
      max_diff,)
  factory = getattr(paranoid, '_check_factory', None)
  if factory is not None:
    factory.clear()   # registry instances are built lazily from the classes


# ------------------------------------------------------------ EC / ECDSA

def all_curve_ids():
  return sorted(gen.pb2().CurveType.values())


def ec_hostile_key(rng, curve_id=None, kind=None):
  """One well-formed but possibly hostile EC key. Returns (ECKey, desc)."""
  from vp import sigs
  pb = gen.pb2()
  if curve_id is None:
    curve_id = rng.choice(all_curve_ids() + [gen.curve_id(c) for c in gen.NAMED]
                          * 2)
  name = pb.CurveType.Name(curve_id)
  if name not in gen.NAMED:
    return gen.ec_key(curve_id, rng.bits(rng.choice([0, 8, 200, 600])),
                      rng.bits(rng.choice([0, 8, 200]))), 'unsupported:' + name
  mc = gen.model_curve(name)
  p, n = mc.p, mc.n
  kind = kind or rng.choice(['valid', 'valid', 'valid', 'small', 'zero',
                             'yzero', 'xeqp', 'plusp', 'huge', 'offcurve',
                             'xzero', 'negated', 'structured'])
  d = rng.below(n - 1) + 1
  x, y = sigs.mulg(name, d)
  if kind == 'small':
    x, y = sigs.mulg(name, rng.choice([1, 2, 3, 2 ** 31, n - 1, n - 2]))
  elif kind == 'structured':
    x, y = sigs.mulg(name, (rng.bits(32) | 1) << (8 * rng.randint(0, 20)))
  elif kind == 'zero':
    x, y = 0, 0
  elif kind == 'yzero':
    y = 0
  elif kind == 'xzero':
    x = 0
  elif kind == 'xeqp':
    x = p
  elif kind == 'plusp':
    x, y = rng.choice([(x + p, y), (x, y + p), (x + p, y + p), (x + 2 * p, y)])
  elif kind == 'huge':
    x, y = rng.bits(600), rng.bits(600)
  elif kind == 'offcurve':
    y = (y + 1 + rng.below(p - 2)) % p
  elif kind == 'negated':
    y = -y % p
  return gen.ec_key(curve_id, x, y, pad=rng.choice([0, 0, 2])), \
      '%s:%s' % (name, kind)


def ec_hostile_batch(rng, size, curves=None):
  """Batch in which *pairs* of special cases co-occur: duplicates of every
  kind (a duplicate of an invalid point is its own case), re-encodings."""
  keys, descs = [], []
  while len(keys) < size:
    cid = gen.curve_id(rng.choice(curves)) if curves and rng.chance(3, 4) \
        else None
    k, d = ec_hostile_key(rng, cid)
    keys.append(k)
    descs.append(d)
    r = rng.below(6)
    if r == 0 and len(keys) < size:          # exact duplicate
      k2 = type(k)()
      k2.CopyFrom(k)
      keys.append(k2)
      descs.append(d + '+dup')
    elif r == 1 and len(keys) < size and ':' in d and not d.startswith(
        'unsupported'):                      # same point, x + p re-encoding
      mc = gen.model_curve(d.split(':')[0])
      x = int.from_bytes(k.ec_info.x, 'big') + mc.p
      keys.append(gen.ec_key(k.ec_info.curve_type, x,
                             int.from_bytes(k.ec_info.y, 'big')))
      descs.append(d + '+reencoded')
    elif r == 2 and len(keys) < size and not d.startswith('unsupported'):
      # same coordinates on another curve
      other = gen.curve_id(rng.choice(gen.NAMED))
      keys.append(gen.ec_key(other, int.from_bytes(k.ec_info.x, 'big'),
                             int.from_bytes(k.ec_info.y, 'big')))
      descs.append(d + '+othercurve')
  order = list(range(len(keys)))
  rng.shuffle(order)
  return [keys[i] for i in order], [descs[i] for i in order]


def ecdsa_hostile_batch(rng, size):
  """Well-formed signatures (r, s in [1, n-1]) with hostile surroundings."""
  from vp import sigs
  out, descs = [], []
  issuers = []
  while len(out) < size:
    name = rng.choice(gen.NAMED)
    mc = gen.model_curve(name)
    n = mc.n
    kind = rng.choice(['healthy', 'healthy', 'edge-rs', 'hash0', 'hash64',
                       'badissuer', 'unknowncurve', 'sharedissuer',
                       'samekey2curves', 'biased', 'dup'])
    if kind == 'sharedissuer' and issuers:
      name, d, pub = rng.choice(issuers)
      mc = gen.model_curve(name)
      n = mc.n
    else:
      d, pub = sigs.issuer(rng, name)
      issuers.append((name, d, pub))
    h = gen.msg_hash(rng, 0 if kind == 'hash0' else 64 if kind == 'hash64'
                     else None)
    if kind == 'edge-rs':
      r, s = rng.choice([(1, 1), (n - 1, n - 1), (1, n - 1), (n - 1, 1),
                         (rng.below(n - 1) + 1, 1)])
      sig = gen.ecdsa_sig(name, r, s, h, pub)
    elif kind == 'biased':
      ks = sigs.nonces_msb(rng, n, 64, 3)
      for k in ks[:-1]:
        s_ = sigs.sign_k(name, d, pub, k, gen.msg_hash(rng))
        if s_ is not None and len(out) < size - 1:
          out.append(s_)
          descs.append(name + ':biased')
      sig = sigs.sign_k(name, d, pub, ks[-1], h)
    else:
      sig = sigs.sign_k(name, d, pub, rng.below(n - 1) + 1, h,
                        pad=rng.choice([0, 0, 1]))
    if sig is None:
      continue
    if kind == 'badissuer':
      k, _ = ec_hostile_key(rng, gen.curve_id(name), rng.choice(
          ['zero', 'yzero', 'offcurve', 'plusp', 'huge', 'xeqp']))
      sig.issuer_key_info.CopyFrom(k.ec_info)
    elif kind == 'unknowncurve':
      sig.issuer_key_info.curve_type = rng.choice(
          [0, 7, 11, 16, 99]) if rng.chance(3, 4) else gen.curve_id(
              'CURVE_SECT283K1')
    elif kind == 'samekey2curves':
      other = rng.choice([c for c in gen.NAMED if c != name])
      no = gen.model_curve(other).n
      s2 = gen.ecdsa_sig(other, rng.below(no - 1) + 1, rng.below(no - 1) + 1,
                         gen.msg_hash(rng), pub)
      out.append(s2)
      descs.append(other + ':samekey2curves')
    out.append(sig)
    descs.append('%s:%s' % (name, kind))
    if kind == 'dup':
      s2 = type(sig)()
      s2.CopyFrom(sig)
      out.append(s2)
      descs.append('%s:dup' % name)
  order = list(range(len(out)))
  rng.shuffle(order)
  return [out[i] for i in order], [descs[i] for i in order]
