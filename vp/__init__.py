"""Runtime-monitoring machinery for google/paranoid_crypto (see /verif/DESIGN.md)."""
