"""RSA modulus generators with generator-side ground truth (p, q known)."""
import math

import gmpy2

PATTERN_SIZES = list(range(1, 16, 2)) + [31, 63, 127, 255, 511] + [
    8, 16, 32, 64, 128, 256]
UPPER_DIFF_EXPS = (100, 128, 160, 256, 2, 3)


def next_prime(v):
  return int(gmpy2.next_prime(v))


def is_prime(v):
  return bool(gmpy2.is_prime(v, 30))


def rand_prime_top2(rng, bits):
  """Random prime with the two top bits set (products have 2*bits bits)."""
  while True:
    c = rng.bits(bits) | (3 << (bits - 2)) | 1
    if is_prime(c):
      return int(c)


def healthy(rng, bits):
  """Two independent uniformly random primes of bits/2 bits; n of `bits`."""
  while True:
    p, q = rng.prime(bits // 2), rng.prime(bits - bits // 2)
    if p != q and (p * q).bit_length() == bits:
      return p * q, p, q


# ---------------------------------------------------------------- C04

def fermat_steps(p, q):
  """(p+q)/2 - ceil(sqrt(n)): index of the successful Fermat iteration."""
  n = p * q
  r = math.isqrt(n)
  if r * r < n:
    r += 1
  return (p + q) // 2 - r


def fermat_close(rng, pbits, target_steps):
  """Odd n = p*q whose Fermat step count is close to target_steps."""
  while True:
    p = rng.prime(pbits)
    # (q-p)^2 / (8p) ~ steps
    gap = math.isqrt(8 * p * max(target_steps, 0)) if target_steps else 2
    gap += rng.below(max(2, gap // 1000 + 2))
    q = next_prime(p + gap)
    if q.bit_length() == pbits and q != p:
      return p * q, p, q, fermat_steps(p, q)


def fermat_exact(rng, pbits, steps_lo, steps_hi):
  """Searches for a pair with steps in [steps_lo, steps_hi]."""
  for _ in range(2000):
    n, p, q, s = fermat_close(rng, pbits, (steps_lo + steps_hi) // 2)
    if steps_lo <= s <= steps_hi:
      return n, p, q, s
  return None


def hilo_equal(rng, nbits, r, s):
  """p, q agreeing on r low and s high bits; n has nbits bits."""
  half = nbits // 2
  for _ in range(200000):
    p = rand_prime_top2(rng, half)
    mid = rng.bits(half - r - s)
    q = (p >> (half - s) << (half - s)) | (mid << r) | (p & ((1 << r) - 1))
    if q != p and is_prime(q) and (p * q).bit_length() == nbits:
      # exact agreement lengths
      return p * q, p, q
  return None


def upper_diff(rng, L, dexp):
  """q = next_prime(p + 2^(L-dexp)), both L bits, n of 2L bits."""
  for _ in range(1000):
    p = rng.prime(L)
    q = next_prime(p + 2 ** (L - dexp))
    if q.bit_length() == L and (p * q).bit_length() == 2 * L:
      return p * q, p, q
  return None


def unseeded_near(rng, value, psize, variant):
  """p = next prime after a listed unseeded output (variant 0: as listed,
  1: top bit set, 2: two top bits set); cofactor sized so that the modulus
  selects the list of `psize`."""
  v = value | {0: 0, 1: 1 << (psize - 1), 2: 3 << (psize - 2)}[variant]
  p = next_prime(v)
  for _ in range(200):
    qbits = 2 * psize - p.bit_length() + rng.choice([0, 0, 0, -1])
    if qbits < 64:
      return None
    q = rng.prime(qbits)
    n = p * q
    if (n.bit_length() + 1) // 2 == psize and q != p:
      return n, p, q
  return None


# ---------------------------------------------------------------- C05

def repeat_word(word, w, bits):
  v = 0
  for i in range(-(-bits // w) + 1):
    v |= word << (i * w)
  return v


def patterned_prime(rng, bits, w, dev_bits=32, swap=None):
  """Prime that is a repetition of a w-bit word (random rotation) except for
  up to dev_bits low bits; with swap=k adjacent k-bit limbs are swapped."""
  for _ in range(400):
    word = rng.bits(w) | 1 | (1 << (w - 1)) if w > 1 else 1
    v = repeat_word(word, w, bits + w) >> rng.below(w)
    v &= (1 << bits) - 1
    if swap:
      limbs = [(v >> (i * swap)) & ((1 << swap) - 1)
               for i in range(bits // swap)]
      for i in range(0, len(limbs) - 1, 2):
        limbs[i], limbs[i + 1] = limbs[i + 1], limbs[i]
      v = sum(l << (i * swap) for i, l in enumerate(limbs))
    if v.bit_length() != bits or not (v >> (bits - 2)) & 1:
      continue
    base = v >> dev_bits << dev_bits
    for _ in range(6000):
      c = base | rng.bits(dev_bits) | 1
      if is_prime(c):
        return int(c), word
  return None


def both_pattern_prime(rng, bits, w):
  """Repetition of a w-bit word; nearest prime (minimal low-bit deviation)."""
  for _ in range(1000):
    word = rng.bits(w) | 1
    v = (repeat_word(word, w, bits) >> rng.below(w)) & ((1 << bits) - 1)
    if v.bit_length() != bits:
      continue
    c = next_prime(v)
    if c.bit_length() == bits:
      return c
    c = v | 1
    while not is_prime(c):      # all-ones style values: search downwards
      c -= 2
    if c.bit_length() == bits:
      return c
  raise RuntimeError('no patterned prime found')


def low_weight_prime(rng, bits, hw, clustered=False):
  """Prime of `bits` bits with Hamming weight hw (weight is raised by one
  after 3000 unsuccessful candidates: very low weights may not exist)."""
  hw = max(hw, 3)
  tries = 0
  while True:
    v = (1 << (bits - 1)) | 1
    while bin(v).count('1') < hw:
      if clustered:
        v |= 1 << (bits - 2 - rng.below(max(hw * 3, 8)))
      else:
        v |= 1 << rng.randint(1, bits - 2)
    if is_prime(v):
      return v
    tries += 1
    if tries % 3000 == 0:
      hw += 1


_small_primes = None


def small_primes():
  global _small_primes
  if _small_primes is None:
    lim = 2 ** 20
    sieve = bytearray([1]) * lim
    sieve[0:2] = b'\x00\x00'
    for i in range(2, math.isqrt(lim) + 1):
      if sieve[i]:
        sieve[i * i::i] = bytearray(len(range(i * i, lim, i)))
    _small_primes = [i for i in range(lim) if sieve[i]]
  return _small_primes


def smooth_number(rng, bits):
  sp = small_primes()
  v = 1
  while v.bit_length() < bits:
    v *= rng.choice(sp[:2000] if rng.chance(1, 2) else sp)
  return v


def prime_from(rng, mult, bits, smooth):
  """Prime p = mult*c + 1 of `bits` bits; c 2^20-smooth and squarefree-ish
  (each prime power well below 2^64) if smooth else random."""
  sp = small_primes()
  for _ in range(400000):
    if smooth:
      c = 2
      while (mult * c).bit_length() < bits - 1:
        c *= rng.choice(sp)
      if (mult * c).bit_length() > bits:
        continue
    else:
      cb = bits - mult.bit_length()
      c = (rng.bits(cb) | (1 << (cb - 1))) & ~1
    p = mult * c + 1
    if p.bit_length() == bits and is_prime(p):
      return p
  return None


_POLLARD_M = []


def pollard_default_product():
  """The documented default product of CheckPollardpm1 (definitional)."""
  if not _POLLARD_M:
    m = 1
    for i, p in enumerate(small_primes()):
      m *= p ** int(math.log(2 ** 64, p)) if i < 150 else p
    _POLLARD_M.append(m)
  return _POLLARD_M[0]


def shared_smooth_checked(rng, nbits, both):
  """shared_smooth, retried until p-1 (and q-1 iff both) divides the default
  product and the shared smooth part is >= 2^60."""
  M = pollard_default_product()
  while True:
    n, p, q = shared_smooth(rng, nbits, both)
    if (M % (p - 1) == 0 and (M % (q - 1) == 0) == both and
        math.gcd(math.gcd(p - 1, q - 1), M) >= 2 ** 60):
      return n, p, q


def shared_smooth(rng, nbits, both):
  """p-1 and q-1 share a 2^20-smooth factor >= 2^60; p-1 fully smooth; q-1
  smooth too iff both."""
  while True:
    shared = smooth_number(rng, 64)
    p = prime_from(rng, shared, nbits // 2, True)
    q = prime_from(rng, shared, nbits // 2, both)
    if p and q and p != q:
      return p * q, p, q


def _maxexp(p0, limit):
  e = 0
  while p0 ** (e + 1) <= limit:
    e += 1
  return e


def _squarefree_smooth_prime(rng, mult, bits, avoid, smooth, bound=2 ** 20):
  """Prime p = mult*c + 1 of `bits` bits; c even; if smooth, c/2 is a product
  of distinct odd primes < bound that avoid `avoid`."""
  sp = [x for x in small_primes() if x < bound]
  for _ in range(200000):
    if smooth:
      c, used = 2 if mult % 2 else 1, set(avoid) | {2}
      while (mult * c).bit_length() < bits - 1:
        r = rng.choice(sp)
        if r in used:
          continue
        used.add(r)
        c *= r
      if (mult * c).bit_length() > bits:
        continue
    else:
      cb = bits - mult.bit_length()
      c = (rng.bits(cb) | (1 << (cb - 1))) & ~1
    p = mult * c + 1
    if p.bit_length() == bits and is_prime(p):
      return p
  return None


def shared_smooth_maxpow(rng, nbits, both):
  """Like shared_smooth, but the shared factor is the *maximal* power of a
  small prime that the default Pollard product contains (2^64, 3^40, 5^27,
  ...): the boundary of 'smooth enough for the default product'."""
  while True:
    p0 = rng.choice([2, 3, 5, 7, 11, 13])
    shared = p0 ** _maxexp(p0, 2 ** 64)
    p = _squarefree_smooth_prime(rng, shared, nbits // 2, [p0], True)
    q = _squarefree_smooth_prime(rng, shared, nbits // 2, [p0], both)
    if p and q and p != q:
      return p * q, p, q


def shared_smooth_cofactor(rng, nbits, both):
  """p = S*b + 1, q = S*c + 1 where the shared 2^20-smooth S >= 2^60 holds the
  *square* of a prime above 863 (so S does not divide the default Pollard
  product, which holds those primes once) and b is a squarefree product of
  primes below 2^20 (c too iff both).  This is the case the documented base
  a = 2^(n-1) is for: p - 1 divides (n - 1) * m although it does not divide m."""
  sp = [x for x in small_primes() if x > 863]
  while True:
    r = rng.choice(sp)
    S, used = r * r, {r}
    while (S // r).bit_length() < 63:
      t = rng.choice(small_primes()[1:])
      if t not in used:
        used.add(t)
        S *= t
    p = _squarefree_smooth_prime(rng, S, nbits // 2, used, True)
    q = _squarefree_smooth_prime(rng, S, nbits // 2, used, both)
    if p and q and p != q:
      return p * q, p, q


def shared_smooth_boundary(rng, nbits):
  """gcd(n - 1, default product) is *exactly* 2^60 (the documented threshold):
  p - 1 = 2^60 * a with a an odd squarefree product of primes in (863, 2^20)
  (so p - 1 divides the product), q - 1 = 2^61 * c with c random, and the
  cofactor of n - 1 coprime to every prime below 2^20."""
  M = pollard_default_product()
  sp = [x for x in small_primes() if x > 863]
  hb = nbits // 2
  while True:
    a, used = 1, set()
    while (a << 60).bit_length() < hb - 1:
      r = rng.choice(sp)
      if r not in used:
        used.add(r)
        a *= r
    p = (a << 60) + 1
    if p.bit_length() != hb or not is_prime(p):
      continue
    for _ in range(400):
      c = rng.bits(hb - 61) | (1 << (hb - 62)) | 1
      q = (c << 61) + 1
      if q.bit_length() != hb or not is_prime(q):
        continue
      n = p * q
      if math.gcd(n - 1, M) == 2 ** 60 and M % (p - 1) == 0:
        return n, p, q


def shared_smooth_squarefree(rng, nbits, both, bound):
  """p-1 and q-1 share a squarefree product (>= 2^60) of distinct odd primes
  below bound; p-1 is a squarefree product of primes below bound (so it
  divides every bound-powersmooth product); q-1 too iff both."""
  sp = [x for x in small_primes() if 2 < x < bound]
  while True:
    shared, used = 1, set()
    while shared.bit_length() < 62:
      r = rng.choice(sp)
      if r not in used:
        used.add(r)
        shared *= r
    p = _squarefree_smooth_prime(rng, shared, nbits // 2, used, True, bound)
    q = _squarefree_smooth_prime(rng, shared, nbits // 2, used, both, bound)
    if p and q and p != q:
      return p * q, p, q


# ------------------------------------------------------- degenerate moduli

def degenerate(rng, kind, bits):
  """Moduli >= 2^63 of unusual shapes."""
  while True:
    n = _degenerate(rng, kind, max(bits, 64))
    if n.bit_length() >= 64:
      return n
    bits += 1


def _degenerate(rng, kind, bits):
  if kind == 'prime':
    return rng.prime(bits)
  if kind == 'square':
    p = rng.prime((bits + 1) // 2)
    return p * p
  if kind == 'cube':
    p = rng.prime(max(22, bits // 3 + 1))
    return p ** 3
  if kind == 'three':
    b = max(22, bits // 3 + 1)
    return rng.prime(b) * rng.prime(b) * rng.prime(b)
  if kind == 'even':
    return rng.prime(bits - 1) * 2
  if kind == 'even2':
    return (rng.bits(bits) | (1 << (bits - 1))) & ~1
  if kind == 'pow2':
    return 1 << (bits - 1)
  if kind == 'pow2m1':
    return (1 << bits) - 1
  if kind == 'pow2p1':
    return (1 << (bits - 1)) + 1
  if kind == 'sq1mod8':
    while True:
      p = rng.prime((bits + 1) // 2)
      if p * p % 8 == 1:
        return p * p
  if kind == 'smallfactor':
    return rng.choice([3, 5, 7, 641, 65537]) * rng.prime(bits - 8)
  if kind == 'oddlen':
    b = bits | 1
    while True:
      p, q = rng.prime(b // 2), rng.prime(b - b // 2)
      if (p * q).bit_length() == b:
        return p * q
  if kind == 'unbalanced':
    return rng.prime(bits // 4) * rng.prime(bits - bits // 4)
  if kind == 'random-odd':
    return rng.odd(bits)
  raise ValueError(kind)


DEGENERATE_KINDS = ['prime', 'square', 'cube', 'three', 'even', 'even2', 'pow2',
                    'pow2m1', 'pow2p1', 'sq1mod8', 'smallfactor', 'oddlen',
                    'unbalanced', 'random-odd']
