"""Substrate (DESIGN 2.1): make the working tree's code importable.

* paranoid_pb2 / data_pb2 are synthesised at import time from the tree's own
  .proto files (no protoc in the sandbox).
* the pybind11 Berlekamp-Massey extension is replaced by a ctypes-loaded shared
  object compiled from the tree's berlekamp_massey.cc (no pybind11 either).
* absl logging -> FATAL, sys.path[0] = $VERIF_REPO.

Nothing of the repository's hand-written code is modified or shadowed.
"""
import ctypes
import hashlib
import importlib
import os
import re
import subprocess
import sys
import types

REPO = os.environ.get('VERIF_REPO', '/repo')
VERIF = os.path.dirname(os.path.dirname(os.path.abspath(__file__)))
BUILD = os.path.join(VERIF, '.build')


class SubstrateError(Exception):
  """The substrate could not be built: run is inconclusive, not a violation."""


_SCALARS = {'double': 1, 'float': 2, 'int64': 3, 'uint64': 4, 'int32': 5,
            'bool': 8, 'string': 9, 'bytes': 12, 'uint32': 13}


def _parse_proto(path, name):
  from google.protobuf import descriptor_pb2
  src = open(path).read()
  src = re.sub(r'//[^\n]*', '', src)
  fdp = descriptor_pb2.FileDescriptorProto()
  fdp.name = name
  m = re.search(r'syntax\s*=\s*"(\w+)"', src)
  if not m:
    raise SubstrateError('no syntax statement in %s' % path)
  fdp.syntax = m.group(1)
  pkg = re.search(r'package\s+([\w.]+)\s*;', src).group(1)
  fdp.package = pkg
  enums = set()
  consumed = []
  for m in re.finditer(r'enum\s+(\w+)\s*\{([^}]*)\}', src):
    consumed.append(m.span())
    e = fdp.enum_type.add()
    e.name = m.group(1)
    enums.add(e.name)
    for v in re.finditer(r'(\w+)\s*=\s*(-?\d+)\s*;', m.group(2)):
      ev = e.value.add()
      ev.name = v.group(1)
      ev.number = int(v.group(2))
  for m in re.finditer(r'message\s+(\w+)\s*\{([^{}]*)\}', src):
    consumed.append(m.span())
    msg = fdp.message_type.add()
    msg.name = m.group(1)
    body = m.group(2)
    nfields = 0
    for f in re.finditer(
        r'(repeated\s+|optional\s+)?(map\s*<\s*(\w+)\s*,\s*([\w.]+)\s*>|[\w.]+)'
        r'\s+(\w+)\s*=\s*(\d+)\s*;', body):
      rep, typ, mk, mv, fname, num = f.groups()
      nfields += 1
      fd = msg.field.add()
      fd.name = fname
      fd.number = int(num)
      fd.json_name = re.sub(r'_(\w)', lambda x: x.group(1).upper(), fname)

      def settype(fd, t):
        if t in _SCALARS:
          fd.type = _SCALARS[t]
        elif t in enums:
          fd.type = 14
          fd.type_name = '.%s.%s' % (pkg, t)
        else:
          fd.type = 11
          fd.type_name = '.%s.%s' % (pkg, t)

      if mk:
        ent = msg.nested_type.add()
        ent.name = ''.join(w.capitalize() for w in fname.split('_')) + 'Entry'
        ent.options.map_entry = True
        k = ent.field.add()
        k.name, k.number, k.label, k.json_name = 'key', 1, 1, 'key'
        settype(k, mk)
        v = ent.field.add()
        v.name, v.number, v.label, v.json_name = 'value', 2, 1, 'value'
        settype(v, mv)
        fd.label = 3
        fd.type = 11
        fd.type_name = '.%s.%s.%s' % (pkg, msg.name, ent.name)
      else:
        fd.label = 3 if (rep or '').strip() == 'repeated' else 1
        settype(fd, typ)
    if nfields != body.count('='):
      raise SubstrateError('unparsed field in message %s of %s' %
                           (msg.name, path))
  # Everything outside enum/message bodies must be syntax/package/blank.
  rest = src
  for a, b in sorted(consumed, reverse=True):
    rest = rest[:a] + rest[b:]
  rest = re.sub(r'syntax\s*=\s*"\w+"\s*;|package\s+[\w.]+\s*;', '', rest)
  if rest.strip():
    raise SubstrateError('unsupported construct in %s: %r' %
                         (path, rest.strip()[:80]))
  return fdp


def install_pb2():
  from google.protobuf import descriptor_pool
  from google.protobuf.internal import builder
  for proto, modname in (
      ('paranoid_crypto/paranoid.proto', 'paranoid_crypto.paranoid_pb2'),
      ('paranoid_crypto/lib/data/data.proto',
       'paranoid_crypto.lib.data.data_pb2')):
    if modname in sys.modules:
      continue
    fdp = _parse_proto(os.path.join(REPO, proto), proto)
    fd = descriptor_pool.Default().AddSerializedFile(fdp.SerializeToString())
    mod = types.ModuleType(modname)
    g = mod.__dict__
    g['DESCRIPTOR'] = fd
    builder.BuildMessageAndEnumDescriptors(fd, g)
    builder.BuildTopDescriptorsAndMessages(fd, modname, g)
    sys.modules[modname] = mod
    parent, _, leaf = modname.rpartition('.')
    setattr(importlib.import_module(parent), leaf, mod)


_SHIM = '''
#include "paranoid_crypto/lib/randomness_tests/cc_util/berlekamp_massey.h"
extern "C" int vp_lfsr_length(const char* p, size_t len, int n) {
  return paranoid_crypto::lib::randomness_tests::cc_util::LfsrLengthStr(
      std::string(p, len), n);
}
'''
BM_REL = 'paranoid_crypto/lib/randomness_tests/cc_util/berlekamp_massey'
BM_VARIANTS = {
    # what setup.py's flags really build on x86-64 (gcc defines __PCLMUL__,
    # the source tests __CLMUL__): the portable loop.
    'portable': ['-mpclmul'],
    # the variant the source intends for x86 and builds on aarch64.
    'clmul': ['-mpclmul', '-msse2', '-D__CLMUL__=1'],
}


def _src_digest(extra=''):
  h = hashlib.sha256()
  for ext in ('.cc', '.h'):
    h.update(open(os.path.join(REPO, BM_REL + ext), 'rb').read())
  h.update(extra.encode())
  return h.hexdigest()[:16]


def build_bm(variant):
  """Compiles the tree's BM source; returns the .so path (content-addressed)."""
  flags = BM_VARIANTS[variant]
  d = os.path.join(BUILD, 'bm')
  os.makedirs(d, exist_ok=True)
  so = os.path.join(d, '%s-%s.so' % (variant, _src_digest(' '.join(flags))))
  if os.path.exists(so):
    return so
  shim = os.path.join(d, 'shim-%d.cc' % os.getpid())
  tmp = so + '.%d.tmp' % os.getpid()
  open(shim, 'w').write(_SHIM)
  try:
    p = subprocess.run(
        ['g++', '-O2', '-std=c++17', '-shared', '-fPIC', *flags, '-I', REPO,
         shim, os.path.join(REPO, BM_REL + '.cc'), '-o', tmp],
        capture_output=True, text=True, timeout=300)
    if p.returncode != 0:
      raise SubstrateError('BM build failed (%s): %s' % (variant, p.stderr[-2000:]))
    os.replace(tmp, so)
  finally:
    for f in (shim, tmp):
      if os.path.exists(f):
        os.unlink(f)
  return so


_libs = {}


def bm_lib(variant):
  if variant not in _libs:
    lib = ctypes.CDLL(build_bm(variant))
    lib.vp_lfsr_length.argtypes = [ctypes.c_char_p, ctypes.c_size_t,
                                   ctypes.c_int]
    lib.vp_lfsr_length.restype = ctypes.c_int
    _libs[variant] = lib
  return _libs[variant]


def native_lfsr_length(variant):
  """Returns f(bytes, n) with the pybind11 module's calling convention."""
  def LfsrLength(ba, n):
    if not isinstance(n, int) or isinstance(n, bool) and False:
      raise TypeError('LfsrLength(): incompatible function arguments')
    if not -2**31 <= n < 2**31:
      # pybind11 refuses ints that do not fit the C++ int parameter.
      raise TypeError('LfsrLength(): incompatible function arguments')
    b = bytes(ba)
    return bm_lib(variant).vp_lfsr_length(b, len(b), n)
  return LfsrLength


BM_MODNAME = ('paranoid_crypto.lib.randomness_tests.cc_util.pybind.'
              'berlekamp_massey')


def install_bm(variant=None):
  variant = variant or os.environ.get('VP_BM_VARIANT', 'portable')
  mod = sys.modules.get(BM_MODNAME)
  if mod is None:
    mod = types.ModuleType(BM_MODNAME)
    sys.modules[BM_MODNAME] = mod
    parent = importlib.import_module(BM_MODNAME.rpartition('.')[0])
    parent.berlekamp_massey = mod
  mod.LfsrLength = native_lfsr_length(variant)
  mod.vp_variant = variant
  return mod


_done = False


def init(bm=True):
  """Installs the substrate. Idempotent."""
  global _done
  if _done:
    return
  os.environ.setdefault('PYTHONHASHSEED', '0')
  if sys.path[0] != REPO:
    sys.path.insert(0, REPO)
  try:
    from absl import logging as absl_logging
    absl_logging.set_verbosity(absl_logging.FATAL)
    absl_logging.set_stderrthreshold('fatal')
  except Exception:  # pylint: disable=broad-except
    pass
  import logging
  logging.disable(logging.ERROR)
  try:
    install_pb2()
    if bm:
      install_bm()
    # Import order matters: paranoid before ecdsa_sig_checks (circular import).
    importlib.import_module('paranoid_crypto.lib.paranoid')
  except SubstrateError:
    raise
  except Exception as e:  # pylint: disable=broad-except
    raise SubstrateError('substrate import failed: %r' % (e,)) from e
  _done = True
