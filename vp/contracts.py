"""Runtime contracts on the repository's own functions (DESIGN 3.1).

monitor(owner, name, post=...) replaces the attribute on the owning module or
class, evaluates the post-condition on every real call the workload causes,
*records* violations through the ctx (never raises: a raising contract would
change the behaviour it observes) and counts evaluations."""
import copy
import functools


class Monitor:

  def __init__(self, ctx, owner, name, post, copy_args=False, label=None):
    self.ctx, self.owner, self.name, self.post = ctx, owner, name, post
    self.orig = getattr(owner, name)
    self.label = label or name
    self.copy_args = copy_args
    self.calls = 0
    mon = self

    @functools.wraps(self.orig)
    def wrapper(*a, **kw):
      old = copy.deepcopy((a, kw)) if mon.copy_args else (a, kw)
      res = mon.orig(*a, **kw)
      mon.calls += 1
      ctx.count('contract:' + mon.label)
      try:
        msg = mon.post(res, *old[0], **old[1])
      except Exception as e:  # pylint: disable=broad-except
        msg = 'contract evaluation failed: %r' % (e,)
      if msg:
        ctx.violation('contract:%s' % mon.label, '%s: %s' % (mon.label, msg),
                      {'args': [repr(x)[:300] for x in old[0]]})
      return res

    self.wrapper = wrapper
    setattr(owner, name, wrapper)

  def restore(self):
    setattr(self.owner, self.name, self.orig)


def monitor(ctx, owner, name, post, **kw):
  return Monitor(ctx, owner, name, post, **kw)


class PurityMonitor:
  """History monitor for functions that must be pure: the first `keep`
  distinct calls of each wrapped function are recorded (deep-copied arguments
  and result); `recheck()` re-issues them later - after arbitrary other calls,
  in reverse order - and demands the same result.  Catches memoisation keyed
  by too little, cached values mutated in place, state shared between calls."""

  def __init__(self, ctx, keep=150, max_repr=3000):
    self.ctx, self.keep, self.max_repr = ctx, keep, max_repr
    self.records = {}
    self.wrapped = []
    self.active = True

  def wrap(self, owner, name, norm=None):
    orig = getattr(owner, name)
    label = '%s.%s' % (getattr(owner, '__name__', type(owner).__name__).split(
        '.')[-1], name)
    recs = self.records.setdefault(label, {})
    mon = self

    @functools.wraps(orig)
    def wrapper(*a, **kw):
      res = orig(*a, **kw)
      if mon.active and len(recs) < mon.keep:
        try:
          key = repr((a, sorted(kw.items())))
          if len(key) <= mon.max_repr and key not in recs:
            out = list(res) if hasattr(res, '__next__') else res
            recs[key] = (copy.deepcopy(a), copy.deepcopy(kw),
                         copy.deepcopy(norm(out) if norm else out))
            res = iter(out) if hasattr(res, '__next__') else res
        except Exception:  # pylint: disable=broad-except
          pass
      return res
    setattr(owner, name, wrapper)
    self.wrapped.append((owner, name, orig, norm))
    return self

  def recheck(self):
    """Re-issues every recorded call (newest first) through the *wrapped*
    attribute's original and compares."""
    self.active = False
    for owner, name, orig, norm in self.wrapped:
      label = '%s.%s' % (getattr(owner, '__name__', type(owner).__name__
                                 ).split('.')[-1], name)
      recs = self.records.get(label, {})
      for key in reversed(list(recs)):
        a, kw, want = recs[key]
        self.ctx.count('evaluations')
        self.ctx.count('purity_rechecks')
        try:
          got = orig(*copy.deepcopy(a), **copy.deepcopy(kw))
          got = list(got) if hasattr(got, '__next__') else got
          got = norm(got) if norm else got
          same = _same(got, want)
        except Exception as e:  # pylint: disable=broad-except
          got, same = repr(e), False
        if not same:
          self.ctx.violation(
              'not-a-function-of-its-arguments@%s' % label,
              '%s%s returned %s earlier and %s when called again later in '
              'the same process' % (label, key[:300], repr(want)[:200],
                                    repr(got)[:200]), {'call': key[:500]})
          break
    self.active = True

  def restore(self):
    for owner, name, orig, _ in self.wrapped:
      setattr(owner, name, orig)


def _same(a, b):
  if isinstance(a, float) and isinstance(b, float):
    return a == b or (a != a and b != b)
  if isinstance(a, (list, tuple)) and isinstance(b, (list, tuple)):
    return len(a) == len(b) and all(_same(x, y) for x, y in zip(a, b))
  try:
    return bool(a == b)
  except Exception:  # pylint: disable=broad-except
    return repr(a) == repr(b)
