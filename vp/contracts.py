"""Runtime contracts on the repository's own functions (DESIGN 3.1).

monitor(owner, name, post=...) replaces the attribute on the owning module or
class, evaluates the post-condition on every real call the workload causes,
*records* violations through the ctx (never raises: a raising contract would
change the behaviour it observes) and counts evaluations."""
import copy
import functools


class Monitor:

  def __init__(self, ctx, owner, name, post, copy_args=False, label=None):
    self.ctx, self.owner, self.name, self.post = ctx, owner, name, post
    self.orig = getattr(owner, name)
    self.label = label or name
    self.copy_args = copy_args
    self.calls = 0
    mon = self

    @functools.wraps(self.orig)
    def wrapper(*a, **kw):
      old = copy.deepcopy((a, kw)) if mon.copy_args else (a, kw)
      res = mon.orig(*a, **kw)
      mon.calls += 1
      ctx.count('contract:' + mon.label)
      try:
        msg = mon.post(res, *old[0], **old[1])
      except Exception as e:  # pylint: disable=broad-except
        msg = 'contract evaluation failed: %r' % (e,)
      if msg:
        ctx.violation('contract:%s' % mon.label, '%s: %s' % (mon.label, msg),
                      {'args': [repr(x)[:300] for x in old[0]]})
      return res

    self.wrapper = wrapper
    setattr(owner, name, wrapper)

  def restore(self):
    setattr(self.owner, self.name, self.orig)


def monitor(ctx, owner, name, post, **kw):
  return Monitor(ctx, owner, name, post, **kw)
