"""Workload generators shared by the checks (artifacts with generator-side
ground truth).  Uses the repository only for protobuf classes and curve
parameters; all arithmetic for ground truth is done by vp.models."""
import hashlib

from vp.models import ec as mec

NAMED = ['CURVE_SECP192R1', 'CURVE_SECP224R1', 'CURVE_SECP256R1',
         'CURVE_SECP384R1', 'CURVE_SECP521R1', 'CURVE_SECP256K1',
         'CURVE_BRAINPOOLP256R1', 'CURVE_BRAINPOOLP384R1',
         'CURVE_BRAINPOOLP512R1']
STRONG = [c for c in NAMED if c != 'CURVE_SECP192R1']
BINARY = ['CURVE_SECT163K1', 'CURVE_SECT233K1', 'CURVE_SECT283K1',
          'CURVE_SECT409K1', 'CURVE_SECT571K1', 'CURVE_SECT163R2',
          'CURVE_SECT233R1', 'CURVE_SECT283R1', 'CURVE_SECT409R1',
          'CURVE_SECT571R1']

_model_cache = {}


def pb2():
  from paranoid_crypto import paranoid_pb2
  return paranoid_pb2


def curve_id(name):
  return getattr(pb2().CurveType, name)


def repo_curve(name):
  from paranoid_crypto.lib import ec_util
  return ec_util.CURVE_FACTORY[curve_id(name)]


def model_curve(name):
  """Model curve with the parameters of the repository object (C11 checks the
  constants themselves; OpenSSL cross-checks k*G there)."""
  if name not in _model_cache:
    rc = repo_curve(name)
    _model_cache[name] = mec.Curve(int(rc.mod), int(rc.a), int(rc.b),
                                   (int(rc.g[0]), int(rc.g[1])), int(rc.n), name)
  return _model_cache[name]


def i2b(v, pad=0):
  """Minimal big-endian bytes plus `pad` leading zero bytes."""
  v = int(v)
  return b'\x00' * pad + v.to_bytes((v.bit_length() + 7) // 8, 'big')


def rsa_key(n, e=65537, pad=0):
  k = pb2().RSAKey()
  k.rsa_info.n = i2b(n, pad)
  k.rsa_info.e = i2b(e, pad)
  return k


def ec_key(curve, x, y, pad=0):
  k = pb2().ECKey()
  k.ec_info.curve_type = curve_id(curve) if isinstance(curve, str) else curve
  k.ec_info.x = i2b(x, pad)
  k.ec_info.y = i2b(y, pad)
  return k


def ec_key_from_priv(curve, d, pad=0):
  P = model_curve(curve).mulg(d)
  return ec_key(curve, P[0], P[1], pad)


def bits2int_mod(h, n):
  """RFC 6979 2.3.2/2.4: leftmost qlen bits of the hash, reduced mod n."""
  z = int.from_bytes(h, 'big')
  shift = len(h) * 8 - n.bit_length()
  if shift > 0:
    z >>= shift
  return z % n


def sign(curve, d, k, h):
  """Textbook ECDSA with explicit nonce; returns (r, s) or None if r/s == 0."""
  c = model_curve(curve)
  n = c.n
  R = c.mulg(k)
  if R is mec.INF:
    return None
  r = R[0] % n
  if r == 0:
    return None
  z = bits2int_mod(h, n)
  s = pow(k, -1, n) * (z + r * d) % n
  if s == 0:
    return None
  return r, s


def ecdsa_sig(curve, r, s, h, pub, pad=0, issuer_curve=None):
  sig = pb2().ECDSASignature()
  sig.ecdsa_sig_info.r = i2b(r, pad)
  sig.ecdsa_sig_info.s = i2b(s, pad)
  sig.ecdsa_sig_info.message_hash = h
  sig.issuer_key_info.curve_type = curve_id(issuer_curve or curve)
  sig.issuer_key_info.x = i2b(pub[0])
  sig.issuer_key_info.y = i2b(pub[1])
  return sig


def signed(curve, d, k, h, pub=None, pad=0):
  """ECDSASignature protobuf for (d, k, h); None if degenerate."""
  rs = sign(curve, d, k, h)
  if rs is None:
    return None
  if pub is None:
    pub = model_curve(curve).mulg(d)
  return ecdsa_sig(curve, rs[0], rs[1], h, pub, pad)


def msg_hash(rng, hlen=None):
  hlen = hlen if hlen is not None else rng.choice([20, 28, 32, 48, 64])
  h = rng.bytes(hlen)
  if hlen >= 2 and rng.chance(1, 6):
    # digests with one or two leading zero bytes: the digest's *length*, not
    # its value, decides the truncation of RFC 6979 2.4
    z = rng.choice([1, 1, 2])
    h = b'\x00' * z + h[z:]
  return h


def semiprime(rng, bits, e=65537):
  """Healthy modulus of exactly `bits` bits from two independent primes of
  bits/2 bits each (retry until the product has full length)."""
  while True:
    p, q = rng.prime(bits // 2), rng.prime(bits - bits // 2)
    if p != q and (p * q).bit_length() == bits:
      return p, q


def entries(ti):
  return {e.test_name: (bool(e.result), int(e.severity))
          for e in ti.test_results}


def attached(ti):
  return {a.info_name: a.value for a in ti.attached_info}
