"""Known findings: committed list + mechanism classifiers (DESIGN 2.3).

known_findings.json is never written at run time.  An entry with status
"known" suppresses exactly the violations its classifier recognises (by
mechanism name and, where given, a predicate over generator-side ground
truth); "fixed" entries suppress nothing.
"""
import json
import os
import re

PATH = os.path.join(os.path.dirname(os.path.dirname(os.path.abspath(__file__))),
                    'known_findings.json')


def load():
  if not os.path.exists(PATH):
    return {}
  return {e['id']: e for e in json.load(open(PATH))['findings']}


def _mech_equals(v, params):
  return v['mech'] == params['mech']


def _mech_regex(v, params):
  return re.fullmatch(params['regex'], v['mech']) is not None


CLASSIFIERS = {'mech_equals': _mech_equals, 'mech_regex': _mech_regex}


def classify(prop, v, known):
  for kid, e in known.items():
    if e.get('status') != 'known':
      continue
    props = e.get('properties') or [e.get('property')]
    if prop not in props:
      continue
    fn = CLASSIFIERS[e['classifier']]
    try:
      if fn(v, e.get('params', {})):
        return kid
    except (KeyError, TypeError):
      continue
  return None
