"""Boundary observer (DESIGN 3.2): snapshots of the caller-owned protobufs
before/after every Check call, and parsers for the attached evidence."""
import ast
import re


def snapshot(ti):
  return {
      'weak': bool(ti.weak),
      'version': ti.paranoid_lib_version,
      'entries': [(e.test_name, bool(e.result), int(e.severity))
                  for e in ti.test_results],
      'info': [(a.info_name, a.value) for a in ti.attached_info],
  }


def entries_dict(snap):
  return {n: (r, s) for n, r, s in snap['entries']}


def info_dict(snap):
  return dict(snap['info'])


def factor_set(value):
  """Parses an attached factor record ("{'a1', 'ff'}") into a set of ints."""
  if value is None:
    return None
  try:
    v = ast.literal_eval(value)
    return {int(x, 16) for x in v}
  except Exception:  # pylint: disable=broad-except
    return 'UNPARSABLE'


DIFF_RE = re.compile(r'^key - \(([0-9a-f]+), ([0-9a-f]+)\) = (-?\d+) \* G$')


def parse_diff(value):
  m = DIFF_RE.match(value or '')
  if not m:
    return None
  return int(m.group(1), 16), int(m.group(2), 16), int(m.group(3))


def evidence(snap, order=None):
  """Normalised evidence for comparisons across contexts: factor sets as
  frozensets, logs as ints (mod order if given), diff relation kept as text."""
  out = {}
  for k, v in snap['info']:
    if k in ('N_FACTORS', 'N-1_FACTORS'):
      fs = factor_set(v)
      out[k] = tuple(sorted(fs)) if isinstance(fs, set) else v
    elif k == 'DISCRETE_LOG':
      try:
        d = int(v, 16)
        out[k] = d % order if order else d
      except ValueError:
        out[k] = v
    else:
      out[k] = v
  return out


class CallLog:
  """Wraps Check methods of given check objects: records (seq, check, batch
  size, return value / exception, snapshots before and after)."""

  def __init__(self):
    self.events = []

  def call(self, check, artifacts, name=None):
    before = [snapshot(a.test_info) for a in artifacts]
    ev = {'seq': len(self.events), 'check': name or getattr(
        check, 'check_name', getattr(check, '__name__', str(check))),
          'n': len(artifacts), 'before': before}
    try:
      fn = check.Check if hasattr(check, 'Check') else check
      ev['ret'] = fn(artifacts)
      ev['exc'] = None
    except Exception as e:  # pylint: disable=broad-except
      ev['ret'] = None
      ev['exc'] = e
    ev['after'] = [snapshot(a.test_info) for a in artifacts]
    self.events.append(ev)
    return ev
