"""Process model, deterministic randomness, verdicts, evidence (DESIGN 2.2-2.4)."""
import hashlib
import importlib
import json
import os
import subprocess
import sys
import time
import traceback

if hasattr(sys, 'set_int_max_str_digits'):
  sys.set_int_max_str_digits(0)

VERIF = os.path.dirname(os.path.dirname(os.path.abspath(__file__)))
BUILD = os.path.join(VERIF, '.build')
PY = sys.executable


class Rng:
  """Reproducible cryptographic stream (SHAKE-256 of a label)."""

  def __init__(self, label):
    self.label = str(label)
    self._ctr = 0
    self._buf = b''

  def bytes(self, n):
    while len(self._buf) < n:
      self._buf += hashlib.shake_256(
          ('%s#%d' % (self.label, self._ctr)).encode()).digest(4096)
      self._ctr += 1
    out, self._buf = self._buf[:n], self._buf[n:]
    return out

  def bits(self, n):
    if n <= 0:
      return 0
    return int.from_bytes(self.bytes((n + 7) // 8), 'big') >> (-n % 8)

  def below(self, n):
    """Uniform in [0, n)."""
    if n <= 1:
      return 0
    k = (n - 1).bit_length()
    while True:
      v = self.bits(k)
      if v < n:
        return v

  def randint(self, a, b):
    return a + self.below(b - a + 1)

  def choice(self, seq):
    return seq[self.below(len(seq))]

  def chance(self, num, den):
    return self.below(den) < num

  def shuffle(self, lst):
    for i in range(len(lst) - 1, 0, -1):
      j = self.below(i + 1)
      lst[i], lst[j] = lst[j], lst[i]
    return lst

  def sample(self, seq, k):
    lst = list(seq)
    self.shuffle(lst)
    return lst[:k]

  def odd(self, nbits):
    """Random odd integer of exactly nbits bits."""
    return self.bits(nbits) | (1 << (nbits - 1)) | 1

  def prime(self, nbits):
    """Uniformly random prime of exactly nbits bits (rejection sampling)."""
    import gmpy2
    while True:
      c = self.bits(nbits) | (1 << (nbits - 1)) | 1
      if gmpy2.is_prime(c, 30):
        return int(c)

  def fork(self, sub):
    return Rng('%s/%s' % (self.label, sub))


def jsonable(o):
  """Converts ints that JSON cannot carry exactly / mpz / bytes / sets."""
  if isinstance(o, bool) or o is None or isinstance(o, str):
    return o
  if isinstance(o, int):
    return o if -2**53 < o < 2**53 else hex(o)
  if isinstance(o, float):
    return o if o == o and abs(o) != float('inf') else repr(o)
  if isinstance(o, (bytes, bytearray)):
    return 'hex:' + bytes(o).hex()
  if isinstance(o, dict):
    return {str(k): jsonable(v) for k, v in o.items()}
  if isinstance(o, (list, tuple, set, frozenset)):
    return [jsonable(v) for v in o]
  try:
    return jsonable(int(o))
  except Exception:  # pylint: disable=broad-except
    return repr(o)


class Ctx:
  """Per-shard monitor state inside a worker."""

  MAX_VIOL = 40

  def __init__(self, prop, tier, seed, shard, spec):
    self.prop, self.tier, self.seed, self.shard, self.spec = (
        prop, tier, seed, shard, spec)
    self.counters = {}
    self.digests = set()
    self.samples = []
    self.violations = []
    self.viol_mechs = {}
    self.only_case = spec.get('only_case')
    self.case_id = None
    self.records = []
    self.t_start = time.time()

  def spent(self, frac=0.7):
    """True once the shard used `frac` of its wall-clock allowance.  Only
    ever used to *cut a workload short* on a loaded machine (the counters say
    how far it got); never a verdict."""
    if time.time() - self.t_start > frac * self.spec.get(
        'timeout', 1500 if self.tier == 'quick' else 3600):
      if not self.counters.get('workload_cut_by_time_budget'):
        self.count('workload_cut_by_time_budget')
      return True
    return False

  def rng(self, *label):
    return Rng('%s/%d/%s/%s' % (self.prop, self.seed, self.shard,
                                '/'.join(str(x) for x in label)))

  def count(self, name, k=1):
    self.counters[name] = self.counters.get(name, 0) + k

  def maxc(self, name, v):
    self.counters[name] = max(self.counters.get(name, v), v)

  def minc(self, name, v):
    self.counters[name] = min(self.counters.get(name, v), v)

  def distinct(self, *key):
    """Registers one non-trivial case by digest."""
    self.digests.add(
        hashlib.blake2b(repr(key).encode(), digest_size=8).hexdigest())

  def sample(self, obj, limit=4):
    if len(self.samples) < limit:
      self.samples.append(jsonable(obj))

  def record(self, obj):
    """Event-log entry for offline checkers that run in the parent."""
    self.records.append(jsonable(obj))

  def want(self, case_id):
    """Case filter used by --replay; also sets the current case id."""
    self.case_id = case_id
    return self.only_case is None or self.only_case == case_id

  def violation(self, mech, msg, data=None, truth=None):
    """Records (never raises) a refuted oracle. mech names the mechanism."""
    n = self.viol_mechs.get(mech, 0)
    self.viol_mechs[mech] = n + 1
    self.count('violations_recorded')
    if n < 3 and len(self.violations) < self.MAX_VIOL:
      self.violations.append({
          'mech': mech, 'msg': str(msg)[:600], 'case': self.case_id,
          'data': jsonable(data), 'truth': jsonable(truth)})

  def result(self, error=None):
    return {
        'shard': self.shard, 'counters': self.counters,
        'digests': sorted(self.digests), 'samples': self.samples,
        'violations': self.violations, 'viol_mechs': self.viol_mechs,
        'records': self.records, 'error': error}


def load_check(prop):
  return importlib.import_module('vp.checks.%s' % prop.lower())


def worker_main(argv):
  """Entry: python -m vp.harness worker <prop> <tier> <seed> <specfile> <out>."""
  prop, tier, seed, specfile, out = argv
  seed = int(seed)
  spec = json.load(open(specfile))
  import faulthandler
  faulthandler.enable()
  ctx = Ctx(prop, tier, seed, spec['shard'], spec)
  err = None
  t0 = time.time()
  try:
    from vp import bootstrap
    try:
      bootstrap.init()
    except bootstrap.SubstrateError as e:
      err = {'kind': 'substrate', 'msg': str(e)}
    else:
      mod = load_check(prop)
      mod.run(ctx, spec)
  except MemoryError:
    err = {'kind': 'resource', 'msg': 'MemoryError'}
  except BaseException as e:  # pylint: disable=broad-except
    # An exception escaping the *harness* is a harness failure, not a verdict.
    err = {'kind': 'harness', 'msg': ''.join(
        traceback.format_exception(type(e), e, e.__traceback__))[-3000:]}
  ctx.counters['wall_s_x1000'] = int((time.time() - t0) * 1000)
  with open(out + '.tmp', 'w') as f:
    json.dump(ctx.result(err), f)
  os.replace(out + '.tmp', out)


def run_shards(prop, tier, seed, specs, jobs=16, default_timeout=None):
  """Runs shard specs in subprocesses; returns list of result dicts."""
  if default_timeout is None:
    # (a hang detector, generous on purpose: a loaded machine must not turn
    # a finished workload into an inconclusive run)
    default_timeout = 1500 if tier == 'quick' else 3600
  run_dir = os.path.join(BUILD, 'run-%s-%d' % (prop, os.getpid()))
  os.makedirs(run_dir, exist_ok=True)
  env = dict(os.environ)
  env['PYTHONHASHSEED'] = '0'
  env['PYTHONPATH'] = VERIF + os.pathsep + env.get('PYTHONPATH', '')
  env.setdefault('OMP_NUM_THREADS', '1')
  env.setdefault('OPENBLAS_NUM_THREADS', '1')
  pending = list(enumerate(specs))
  # heavy shards first
  pending.sort(key=lambda t: -t[1].get('weight', 1))
  running = {}
  results = [None] * len(specs)
  while pending or running:
    while pending and len(running) < jobs:
      i, spec = pending.pop(0)
      sf = os.path.join(run_dir, 'spec-%d.json' % i)
      of = os.path.join(run_dir, 'out-%d.json' % i)
      json.dump(spec, open(sf, 'w'))
      lf = open(os.path.join(run_dir, 'log-%d.txt' % i), 'w')
      p = subprocess.Popen(
          [PY, '-m', 'vp.harness', 'worker', prop, tier, str(seed), sf, of],
          cwd=VERIF, env=env, stdout=lf, stderr=subprocess.STDOUT)
      running[i] = (p, time.time(), spec, of, lf)
    time.sleep(0.05)
    for i in list(running):
      p, t0, spec, of, lf = running[i]
      rc = p.poll()
      timeout = spec.get('timeout', default_timeout)
      if rc is None and time.time() - t0 > timeout:
        p.kill()
        p.wait()
        rc = 'timeout'
      if rc is None:
        continue
      lf.close()
      del running[i]
      if rc == 'timeout':
        results[i] = {'shard': spec['shard'], 'counters': {}, 'digests': [],
                      'samples': [], 'violations': [], 'viol_mechs': {},
                      'error': {'kind': 'watchdog',
                                'msg': 'shard exceeded %ds' % timeout}}
      elif os.path.exists(of):
        results[i] = json.load(open(of))
      else:
        log = open(lf.name).read()[-2000:]
        results[i] = {'shard': spec['shard'], 'counters': {}, 'digests': [],
                      'samples': [], 'violations': [], 'viol_mechs': {},
                      'error': {'kind': 'crash',
                                'msg': 'worker exit %s: %s' % (rc, log)}}
  return results, run_dir


def main(argv=None):
  argv = list(sys.argv[1:] if argv is None else argv)
  if argv and argv[0] == 'worker':
    return worker_main(argv[1:])
  raise SystemExit('use: python -m vp.run <Cxx> --tier quick|thorough')


if __name__ == '__main__':
  main()
