"""Builds the sanitizer / valgrind / libFuzzer drivers for C14 from the working
tree's berlekamp_massey.cc (both compile-time variants in one binary)."""
import hashlib
import os
import subprocess

from vp import bootstrap

NATIVE = os.path.join(bootstrap.VERIF, 'native')
VARIANT_FLAGS = {
    'portable': ['-Dparanoid_crypto=pc_portable', '-mpclmul'],
    'clmul': ['-Dparanoid_crypto=pc_clmul', '-mpclmul', '-msse2',
              '-D__CLMUL__=1'],
}
KINDS = {
    'san': (['clang++', '-O1', '-g', '-std=c++17',
             '-fsanitize=address,undefined', '-fno-sanitize-recover=all',
             '-D_GLIBCXX_ASSERTIONS'], 'bm_driver.cc'),
    'plain': (['g++', '-O2', '-g', '-std=c++17'], 'bm_driver.cc'),
    'fuzz': (['clang++', '-O1', '-g', '-std=c++17',
              '-fsanitize=fuzzer-no-link,address,undefined',
              '-fno-sanitize-recover=all', '-D_GLIBCXX_ASSERTIONS'],
             'bm_fuzz.cc'),
}


def _digest():
  h = hashlib.sha256()
  for f in (bootstrap.BM_REL + '.cc', bootstrap.BM_REL + '.h'):
    h.update(open(os.path.join(bootstrap.REPO, f), 'rb').read())
  for f in ('bm_driver.cc', 'bm_fuzz.cc'):
    h.update(open(os.path.join(NATIVE, f), 'rb').read())
  h.update(repr((VARIANT_FLAGS, KINDS)).encode())
  return h.hexdigest()[:16]


def build(kind):
  """Returns path of the driver binary of the given kind (builds if absent)."""
  d = os.path.join(bootstrap.BUILD, 'native', _digest())
  os.makedirs(d, exist_ok=True)
  out = os.path.join(d, 'bm_' + kind)
  if os.path.exists(out):
    return out
  cc, main_src = KINDS[kind]
  tag = '%s.%d' % (kind, os.getpid())
  objs = []
  try:
    for v, vf in VARIANT_FLAGS.items():
      o = os.path.join(d, '%s-%s.o' % (v, tag))
      p = subprocess.run(cc + vf + ['-I', bootstrap.REPO, '-c', os.path.join(
          bootstrap.REPO, bootstrap.BM_REL + '.cc'), '-o', o],
                         capture_output=True, text=True, timeout=300)
      if p.returncode:
        raise bootstrap.SubstrateError('native build failed: ' + p.stderr[-1500:])
      objs.append(o)
    link = list(cc)
    if kind == 'fuzz':
      link = [f.replace('fuzzer-no-link', 'fuzzer') for f in link]
    p = subprocess.run(link + ['-I', bootstrap.REPO, '-I', NATIVE, os.path.join(
        NATIVE, main_src)] + objs + ['-o', out + '.' + tag],
                       capture_output=True, text=True, timeout=300)
    if p.returncode:
      raise bootstrap.SubstrateError('native link failed: ' + p.stderr[-1500:])
    os.replace(out + '.' + tag, out)
  finally:
    for o in objs:
      if os.path.exists(o):
        os.unlink(o)
  return out


SAN_ENV = {
    'ASAN_OPTIONS': 'halt_on_error=1:abort_on_error=0:detect_leaks=1:'
                    'exitcode=23',
    'UBSAN_OPTIONS': 'halt_on_error=1:print_stacktrace=1:exitcode=24',
}


def classify_report(text):
  """Names the kind of sanitizer/assertion report in a driver's stderr."""
  for pat, name in (('AddressSanitizer', 'asan'),
                    ('runtime error', 'ubsan'),
                    ('Assertion', 'libstdcxx-assertion'),
                    ('LeakSanitizer', 'lsan'),
                    ('FUZZ-MISMATCH', 'fuzz-mismatch'),
                    ('ERROR SUMMARY', 'memcheck')):
    if pat in text:
      return name
  return None
