"""MANIFEST.setup_cmd: verifies the substrate can be built from /repo offline."""
import sys
from vp import bootstrap


def main():
  try:
    bootstrap.init()
    for v in bootstrap.BM_VARIANTS:
      bootstrap.build_bm(v)
    from paranoid_crypto import paranoid_pb2
    assert paranoid_pb2.SeverityType.SEVERITY_CRITICAL == 4
  except Exception as e:  # pylint: disable=broad-except
    print('setup: substrate not available: %r' % (e,))
    return 1
  print('setup ok')
  return 0


if __name__ == '__main__':
  sys.exit(main())
