import shim, random, itertools, sys
from paranoid_crypto.lib.randomness_tests import util as U
rnd = random.Random(2)
def bitsof(s, n): return [(s >> i) & 1 for i in range(n)]
def freq_def(s, n, m, wrap):
    b = bitsof(s, n); res = [0] * 2 ** m
    rng_ = range(n) if wrap else range(n - m + 1)
    for i in rng_:
        v = 0
        for j in range(m): v |= b[(i + j) % n] << j
        res[v] += 1
    return res
bad = 0; tot = 0
def chk(name, got, exp, ctx):
    global bad, tot
    tot += 1
    if got != exp:
        bad += 1
        if bad < 15: print('MISMATCH', name, ctx, 'got', str(got)[:80], 'exp', str(exp)[:80])
# exhaustive small
for n in range(1, 11):
    for s in range(2 ** n):
        for m in range(1, n + 1):
            for wrap in (True, False):
                chk('FrequencyCount', U.FrequencyCount(s, n, m, wrap), freq_def(s, n, m, wrap), (n, s, m, wrap))
                chk('SubSequences', sorted(U.SubSequences(s, n, m, wrap)), sorted(v for v, c in enumerate(freq_def(s, n, m, wrap)) for _ in range(c)), (n, s, m, wrap))
        b = bitsof(s, n)
        chk('Runs', U.Runs(s, n), 1 + sum(b[i] != b[i + 1] for i in range(n - 1)), (n, s))
        st = ''.join(map(str, b))
        chk('LongestRun', U.LongestRunOfOnes(s), max((len(x) for x in st.split('0')), default=0), (n, s))
        chk('Reverse', U.ReverseBits(s, n), int(st, 2), (n, s))
        chk('Bits', list(U.Bits(s, n)), [1 if x else -1 for x in b], (n, s))
        for m in range(1, 5):
            chk('Overlap', U.OverlappingRunsOfOnes(s, m), sum(all(b[i + j] for j in range(m)) for i in range(n - m + 1)), (n, s, m))
            chk('Split', U.SplitSequence(s, n, m), [sum(b[i * m + j] << j for j in range(m)) for i in range(n // m)], (n, s, m))
            chk('Scatter', U.Scatter(s, m), [sum(b[i + m * j] << j for j in range((n - i + m - 1) // m)) if i < n else 0 for i in range(m)], (n, s, m))
print('exhaustive small: tot', tot, 'bad', bad)
# fast path
for trial in range(300):
    m = rnd.randint(1, 6); n = rnd.randint(50 * 2 ** m + 1, 50 * 2 ** m + 400)
    s = rnd.getrandbits(n)
    for wrap in (True, False):
        chk('FrequencyCountFast', U.FrequencyCount(s, n, m, wrap), freq_def(s, n, m, wrap), (n, m, wrap))
for trial in range(300):
    n = rnd.randint(1, 3000); m = rnd.randint(1, 70); s = rnd.getrandbits(n) if rnd.random() < .8 else rnd.getrandbits(n // 2)
    b = bitsof(s, n)
    chk('SplitBig', U.SplitSequence(s, n, m), [sum(b[i * m + j] << j for j in range(m)) for i in range(n // m)], (n, m))
# rank
def rank_def(rows):
    rows = list(rows); r = 0
    width = max((x.bit_length() for x in rows), default=0)
    for c in range(width - 1, -1, -1):
        piv = next((i for i in range(r, len(rows)) if (rows[i] >> c) & 1), None)
        if piv is None: continue
        rows[r], rows[piv] = rows[piv], rows[r]
        for i in range(len(rows)):
            if i != r and (rows[i] >> c) & 1: rows[i] ^= rows[r]
        r += 1
    return r
for trial in range(400):
    R = rnd.choice([1, 2, 5, 31, 32, 33, 49, 50, 51, 64, 100, 255, 256, 257]); Cc = rnd.choice([1, 3, 8, 33, 50, 64, 100, 300])
    k = rnd.randint(0, min(R, Cc))
    # planted rank <= k
    basis = [rnd.getrandbits(Cc) for _ in range(k)]
    rows = []
    for _ in range(R):
        v = 0
        for bvec in basis:
            if rnd.getrandbits(1): v ^= bvec
        rows.append(v)
    if rnd.random() < 0.3: rows = [rnd.getrandbits(Cc) for _ in range(R)]
    chk('Rank', U.BinaryMatrixRank(rows), rank_def(rows), (R, Cc, k))
    chk('RankLargeDirect', U._BinaryMatrixRankLarge(rows), rank_def(rows), (R, Cc, k))
    chk('RankSmallDirect', U._BinaryMatrixRankSmall(rows), rank_def(rows), (R, Cc, k))
print('all: tot', tot, 'bad', bad)
