import shim, sys, json, time
from absl import logging as alog
alog.set_verbosity(alog.FATAL)
from paranoid_crypto.lib.randomness_tests import rng, nist_suite, extended_nist_suite as ext, lattice_suite
part = sys.argv[1]
out = []
def rec(**kw):
    out.append(kw); json.dump(out, open('/tmp/probe/weak_%s.json' % part, 'w'))
if part == 'lcg':
    gens = ['trunclcg16', 'trunclcg20', 'trunclcg28', 'trunclcg32', 'trunclcg64', 'trunclcg128', 'lehmer128', 'lehmer128/16', 'lehmer128/8', 'java', 'mwc64', 'mwc128', 'mwc256', 'mwc512']
    for g in gens:
        for logn in (16, 18, 20):
            n = 2 ** logn
            for seed in (11, 222, 3333):
                bits = rng.GetRng(g).RandomBits(n, seed=seed)
                ps = {}
                for bs in (256, 384, 512, 1024):
                    t = time.time()
                    try: ps[bs] = float(lattice_suite.FindBias(bits, n, bs))
                    except Exception as e: ps[bs] = type(e).__name__
                rec(gen=g, logn=logn, seed=seed, p=ps)
if part == 'xor':
    for g in ('xorshift128+', 'xorshift*', 'xorwow', 'mt19937'):
        for logn in (16, 18, 20, 22):
            n = 2 ** logn
            for seed in (11, 222, 3333):
                bits = rng.GetRng(g).RandomBits(n, seed=seed)
                r = {}
                try: r['rank'] = {k: float(v) for k, v in ext.LargeBinaryMatrixRank(bits, n)}
                except Exception as e: r['rank'] = type(e).__name__
                for params in ([32, 100000], [64, 50000], [128, 40000]):
                    try: r['scatter%s' % params] = float(ext.LinearComplexityScatter(bits, n, *params))
                    except Exception as e: r['scatter%s' % params] = type(e).__name__
                rec(gen=g, logn=logn, seed=seed, r=r)
