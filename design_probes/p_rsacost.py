import shim, time, random
from absl import logging as alog
alog.set_verbosity(alog.FATAL)
import gmpy2 as gmpy
from paranoid_crypto import paranoid_pb2 as pb
from paranoid_crypto.lib import paranoid, util
rnd = random.Random(5)
def rp(bits):
    return int(gmpy.next_prime(rnd.getrandbits(bits) | (3 << (bits-2))))
def key(n, e=65537):
    k = pb.RSAKey(); k.rsa_info.n = util.Int2Bytes(n); k.rsa_info.e = util.Int2Bytes(e); return k
for bits in (2048, 3072, 4096):
    t=time.time(); keys = [key(rp(bits//2)*rp(bits//2)) for _ in range(4)]; tg = time.time()-t
    for name, chk in paranoid.GetRSAAllChecks().items():
        t = time.time(); r = chk.Check(keys); dt = time.time()-t
        print(bits, '%-28s %s %.3fs/key' % (name, r, dt/len(keys)), flush=True)
    print('gen %.2fs/key' % (tg/4))
