import shim, inspect, types, sys
from absl import logging as alog
alog.set_verbosity(alog.FATAL)
from paranoid_crypto.lib import ec_util
src = inspect.getsource(ec_util.EcCurve.Add)
assert "if x1 == x2:\n      if y1 == y2:" in src
import gmpy2 as gmpy
INFINITY = ec_util.INFINITY
def Add(self, p, q):
    if p == INFINITY: return q
    if q == INFINITY: return p
    x1, y1 = p; x2, y2 = q
    if (x1 - x2) % self.mod == 0:
      if (y1 - y2) % self.mod == 0:
        return self.Double(p)
      else:
        return INFINITY
    inv = gmpy.invert(x1 - x2, self.mod)
    t = (y1 - y2) * inv % self.mod
    x3 = (t * t - x1 - x2) % self.mod
    y3 = (t * (x1 - x3) - y1) % self.mod
    return (x3, y3)
def Double(self, p):
    if p == INFINITY: return p
    x, y = p
    if y % self.mod == 0: return INFINITY
    num = (3 * x * x + self.a) % self.mod
    den = 2 * y
    t = num * gmpy.invert(den, self.mod) % self.mod
    x2 = (t * t - 2 * x) % self.mod
    y2 = (t * (x - x2) - y) % self.mod
    return (x2, y2)
ec_util.EcCurve.Add = Add; ec_util.EcCurve.Double = Double
exec(open('p_c18.py').read().split("# EC: hostile coordinates")[1].replace("C = ec_util.CURVE_FACTORY", "from paranoid_crypto import paranoid_pb2 as pb\nfrom paranoid_crypto.lib import paranoid, util, ec_aggregate_checks\nec_aggregate_checks.CheckECKeySmallDifference.__init__.__defaults__ = (2**8,)\nC = ec_util.CURVE_FACTORY"))
