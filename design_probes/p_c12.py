"""Design probe: compact transcription of NIST SP 800-22 vs nist_suite on random strings."""
import shim, sys, math, random, collections
from fractions import Fraction
import mpmath as mp
from paranoid_crypto.lib.randomness_tests import nist_suite as N, util as U
rnd = random.Random(int(sys.argv[1]) if len(sys.argv) > 1 else 1)
igamc = lambda a, x: float('nan') if x < 0 else float(mp.gammainc(a, x, mp.inf, regularized=True))
erfc = lambda x: float(mp.erfc(x))
def bl(bits, n): return [(bits >> i) & 1 for i in range(n)]
def frequency(e): n = len(e); s = sum(2 * b - 1 for b in e); return erfc(abs(s) / math.sqrt(n) / math.sqrt(2))
def block_frequency(e, M):
    n = len(e); Nb = n // M
    chi = 4 * M * sum((Fraction(sum(e[i * M:(i + 1) * M]), M) - Fraction(1, 2)) ** 2 for i in range(Nb))
    return igamc(Nb / 2, float(chi) / 2)
def runs(e):
    n = len(e); pi = sum(e) / n; v = 1 + sum(e[i] != e[i + 1] for i in range(n - 1))
    return erfc(abs(v - 2 * n * pi * (1 - pi)) / (2 * math.sqrt(2 * n) * pi * (1 - pi)))
def longest_runs(e):
    n = len(e)
    if n < 6272: M, cls, pi = 8, [1, 2, 3, 4], [0.2148, 0.3672, 0.2305, 0.1875]
    elif n < 750000: M, cls, pi = 128, [4, 5, 6, 7, 8, 9], [0.1174, 0.2430, 0.2493, 0.1752, 0.1027, 0.1124]
    else: M, cls, pi = 10000, [10, 11, 12, 13, 14, 15, 16], [0.0882, 0.2092, 0.2483, 0.1933, 0.1208, 0.0675, 0.0727]
    Nb = n // M; v = [0] * len(cls)
    for i in range(Nb):
        blk = e[i * M:(i + 1) * M]; best = cur = 0
        for b in blk:
            cur = cur + 1 if b else 0; best = max(best, cur)
        v[min(max(best, cls[0]), cls[-1]) - cls[0]] += 1
    chi = sum((v[i] - Nb * pi[i]) ** 2 / (Nb * pi[i]) for i in range(len(cls)))
    return igamc((len(cls) - 1) / 2, chi / 2)
def serial(e, m_max):
    n = len(e)
    def psi(m):
        if m <= 0: return 0.0
        cnt = collections.Counter()
        for i in range(n):
            cnt[tuple(e[(i + j) % n] for j in range(m))] += 1
        return (2 ** m / n) * sum(c * c for c in cnt.values()) - n
    out = []
    for m in range(2, m_max + 1):
        d1 = psi(m) - psi(m - 1); d2 = psi(m) - 2 * psi(m - 1) + psi(m - 2)
        out += [igamc(2 ** (m - 2), d1 / 2), igamc(2 ** (m - 3), d2 / 2)]
    return out
def apen(e, m_max):
    n = len(e)
    def phi(m):
        cnt = collections.Counter()
        for i in range(n): cnt[tuple(e[(i + j) % n] for j in range(m))] += 1
        return sum((c / n) * math.log(c / n) for c in cnt.values())
    return [igamc(2 ** (m - 1), 2 * n * (math.log(2) - (phi(m) - phi(m + 1))) / 2) for m in range(2, m_max + 1)]
def cusum_p(n, z):
    Phi = lambda x: float(mp.ncdf(x))
    s1 = sum(Phi((4 * k + 1) * z / math.sqrt(n)) - Phi((4 * k - 1) * z / math.sqrt(n)) for k in range(math.ceil(Fraction(-n, z) / 4 + Fraction(1, 4)), math.floor((Fraction(n, z) - 1) / 4) + 1))
    s2 = sum(Phi((4 * k + 3) * z / math.sqrt(n)) - Phi((4 * k + 1) * z / math.sqrt(n)) for k in range(math.ceil((Fraction(-n, z) - 3) / 4), math.floor((Fraction(n, z) - 1) / 4) + 1))
    return 1 - s1 + s2
def walk(e):
    n = len(e); x = [2 * b - 1 for b in e]
    S = [0]
    for v in x: S.append(S[-1] + v)
    zf = max(abs(s) for s in S[1:]); zb = max(abs(S[n] - S[j]) for j in range(n))
    res = {'cumulative sums forward': cusum_p(n, zf), 'cumulative sums reverse': cusum_p(n, zb)}
    Sp = [0] + S[1:] + [0]
    J = sum(1 for s in Sp[1:] if s == 0)
    if J >= 500:
        cycles = []; cur = collections.Counter()
        for s in Sp[1:]:
            if s == 0: cycles.append(cur); cur = collections.Counter()
            else: cur[s] += 1
        for xs in (-4, -3, -2, -1, 1, 2, 3, 4):
            v = [0] * 6
            for c in cycles: v[min(5, c[xs])] += 1
            t = 1 / (2 * abs(xs)); pi = [1 - t] + [t * t * (1 - t) ** (k - 1) for k in range(1, 5)] + [t * (1 - t) ** 4]
            chi = sum((v[k] - J * pi[k]) ** 2 / (J * pi[k]) for k in range(6))
            res['random excursions %d' % xs] = igamc(5 / 2, chi / 2)
        tot = collections.Counter(s for s in S[1:] if s != 0)
        for xs in range(-9, 10):
            if xs: res['random excursions variant %d' % xs] = erfc(abs(tot[xs] - J) / math.sqrt(2 * J * (4 * abs(xs) - 2)) / 1.0 / math.sqrt(1) / 1.0) if True else None
    return res
def nonoverlap(e, blocks, m, templates):
    n = len(e); M = n // blocks; mu = (M - m + 1) / 2 ** m; var = M * (1 / 2 ** m - (2 * m - 1) / 2 ** (2 * m)); out = {}
    for t in templates:
        tb = [(t >> j) & 1 for j in range(m)]
        W = []
        for i in range(blocks):
            blk = e[i * M:(i + 1) * M]; c = 0; j = 0
            while j <= M - m:
                if blk[j:j + m] == tb: c += 1; j += m
                else: j += 1
            W.append(c)
        chi = sum((w - mu) ** 2 / var for w in W); out[t] = igamc(blocks / 2, chi / 2)
    return out
def lincomp_p(Ls, M):
    mu = M / 2 + (9 + (-1) ** (M + 1)) / 36 - (M / 3 + 2 / 9) / 2 ** M
    v = [0] * 7
    for L in Ls:
        T = (-1) ** M * (L - mu) + 2 / 9
        idx = 0 if T <= -2.5 else 1 if T <= -1.5 else 2 if T <= -0.5 else 3 if T <= 0.5 else 4 if T <= 1.5 else 5 if T <= 2.5 else 6
        v[idx] += 1
    pi = [0.010417, 0.03125, 0.125, 0.5, 0.25, 0.0625, 0.020833]; Nn = len(Ls)
    return igamc(3, sum((v[i] - Nn * pi[i]) ** 2 / (Nn * pi[i]) for i in range(7)) / 2)
bad = collections.Counter(); tot = collections.Counter()
def cmp(name, got, exp, ctx, tol=1e-6):
    tot[name] += 1
    if got != got or not (0.0 <= got <= 1.0):
        bad[name + ':outside[0,1]'] += 1
        if bad[name + ':outside[0,1]'] <= 3: print('OUTSIDE [0,1]', name, ctx, 'code', got, 'model', exp)
        return
    if not (abs(got - exp) <= tol + 1e-6 * abs(exp)):
        bad[name] += 1
        if bad[name] <= 3: print('MISMATCH', name, ctx, 'code', got, 'model', exp)
for trial in range(int(sys.argv[2]) if len(sys.argv) > 2 else 60):
    kind = trial % 6
    n = rnd.choice([100, 128, 257, 1000, 4096, 6272, 10007, 20000])
    if kind == 0: bits = rnd.getrandbits(n)
    elif kind == 1: bits = int(('10' * n)[:n], 2)
    elif kind == 2: bits = rnd.getrandbits(n) | rnd.getrandbits(n)
    elif kind == 3: bits = rnd.getrandbits(n) & rnd.getrandbits(n)
    elif kind == 4: bits = int(('1100' * n)[:n], 2) ^ (1 << rnd.randrange(n))
    else: bits = rnd.getrandbits(n)
    e = bl(bits, n)
    if 0 < sum(e) < n:
        cmp('Frequency', N.Frequency(bits, n), frequency(e), n)
        cmp('Runs', N.Runs(bits, n), runs(e), n)
    m = 16
    while n // m >= 100: m *= 2
    m = max(20, m)
    cmp('BlockFrequency', N.BlockFrequency(bits, n), block_frequency(e, m), (n, m))
    if n >= 128: cmp('LongestRuns', N.LongestRuns(bits, n), longest_runs(e), n)
    if n <= 4096:
        mm = min(4, max(2, min(22, n.bit_length() - 4)))
        for (nm, g), x in zip(N.Serial(bits, n, mm), serial(e, mm)): cmp('Serial', g, x, (n, nm))
        for (nm, g), x in zip(N.ApproximateEntropy(bits, n, 3), apen(e, 3)): cmp('ApEn', g, x, (n, nm))
    w = walk(e)
    try: got = dict(N.RandomWalk(bits, n))
    except Exception as ex:
        bad['walk:EXC ' + type(ex).__name__] += 1; print('RandomWalk RAISES', type(ex).__name__, 'n', n, 'kind', kind, 'ones', sum(e), 'prefix', ''.join(map(str, e[:24]))); continue
    for k in set(w) | set(got):
        if k not in w or k not in got: bad['walk-keys'] += 1; print('KEYS differ', k, n, kind); continue
        cmp('walk:' + (k.split(' -')[0].rstrip('0123456789 ')), got[k], w[k], (n, k, kind))
    if n >= 1000:
        blocks = 8; bs = n // blocks
        mm = 2 if bs < 64 else 3 if bs < 256 else 4 if bs < 1024 else 5 if bs < 2048 else 6 if bs < 4096 else 7
        gotn = N.NonOverlappingTemplateMatching(bits, n)
        tmpl = [int(nm.split("'")[1], 2) for nm, _ in gotn][:6]
        exp = nonoverlap(e, blocks, mm, tmpl)
        for (nm, g), t in zip(gotn[:6], tmpl): cmp('NonOverlap', g, exp[t], (n, nm))
    if n >= 4000:
        M = 20 if n < 10000 else 50
        blocks = U.SplitSequence(bits, n, M)
        from paranoid_crypto.lib.randomness_tests import berlekamp_massey as bmm
        Ls = [bmm.LinearComplexityNative(b, M) for b in blocks]
        gotl = dict(N.LinearComplexity(bits, n, M))
        cmp('LinearComplexity.distribution', gotl['distribution'], lincomp_p(Ls, M), (n, M), tol=2e-4)
print('totals', dict(tot)); print('bad', dict(bad))
