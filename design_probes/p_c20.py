import shim, random, sys, collections
from paranoid_crypto.lib.randomness_tests import rng
def java_bits(n, seed):
    # java.util.Random(seed) + new BigInteger(n, rnd)
    mask = (1 << 48) - 1
    st = (seed ^ 0x5DEECE66D) & mask
    def next32():
        nonlocal st
        st = (st * 0x5DEECE66D + 0xB) & mask
        v = st >> 16
        return v - (1 << 32) if v >= (1 << 31) else v  # signed int
    nbytes = (n + 7) // 8
    buf = bytearray(nbytes)
    i = 0
    while i < nbytes:
        r = next32(); k = min(nbytes - i, 4)
        while k > 0:
            buf[i] = r & 0xff; i += 1; r >>= 8; k -= 1
    excess = 8 * nbytes - n
    buf[0] &= (1 << (8 - excess)) - 1
    return int.from_bytes(buf, 'big')
bad = collections.Counter(); tot = collections.Counter(); nondet = collections.Counter()
for name in rng.RngNames():
    g = rng.GetRng(name)
    slow = name in ('lcgnist',) or name.startswith('subsetsum')
    ns = list(range(1, 130)) + [255, 256, 257, 511, 513, 1000, 1023, 1025]
    if slow: ns = list(range(1, 40)) + [63, 65, 127, 129]
    for n in ns:
        for seed in (1, 123456, 2**64 + 5):
            try:
                v = g.RandomBits(n, seed=seed); v2 = g.RandomBits(n, seed=seed)
            except Exception as e:
                bad[(name, 'EXC ' + type(e).__name__)] += 1; continue
            tot[name] += 1
            if not (0 <= v < 2 ** n): bad[(name, 'range', n % 8 != 0)] += 1
            if v != v2: nondet[name] += 1
            if name == 'java' and v != java_bits(n, seed): bad[(name, 'model')] += 1
print('totals', dict(tot))
print('bad', dict(bad))
print('nondeterministic', dict(nondet))
