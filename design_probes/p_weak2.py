import shim, sys, json
from absl import logging as alog
alog.set_verbosity(alog.FATAL)
from paranoid_crypto.lib.randomness_tests import rng, lattice_suite
g = sys.argv[1]; out = []
for logn in (16, 18, 20):
    n = 2 ** logn
    for seed in (11, 222, 3333):
        bits = rng.GetRng(g).RandomBits(n, seed=seed)
        ps = {}
        for bs in (256, 384, 512, 1024):
            try: ps[bs] = float(lattice_suite.FindBias(bits, n, bs))
            except Exception as e: ps[bs] = type(e).__name__
        out.append(dict(gen=g, logn=logn, seed=seed, p=ps))
        json.dump(out, open('/tmp/probe/weak2_%s.json' % g.replace('/', '_'), 'w'))
