import shim, time
from paranoid_crypto import paranoid_pb2 as pb
from paranoid_crypto.lib import paranoid, util, ec_util, ec_single_checks, ec_aggregate_checks, ecdsa_sig_checks
C = ec_util.CURVE_FACTORY
P256 = pb.CurveType.CURVE_SECP256R1
def key(curve_id, d=None, pt=None):
    c = C[curve_id]
    if pt is None: pt = c.Multiply(c.g, d)
    k = pb.ECKey(); k.ec_info.curve_type = curve_id
    k.ec_info.x = util.Int2Bytes(int(pt[0])); k.ec_info.y = util.Int2Bytes(int(pt[1]))
    return k
c = C[P256]
# F7: same point, x+p encoding in batch with the normal one
k1 = key(P256, 123456789123456789)
pt = c.Multiply(c.g, 123456789123456789)
k2 = key(P256, pt=(pt[0] + c.mod, pt[1]))
for name, chk in (('valid', ec_single_checks.CheckValidECKey()), ('smalldiff', ec_aggregate_checks.CheckECKeySmallDifference(max_diff=2**10))):
    try:
        print(name, chk.Check([key(P256, 123456789123456789), k2]))
    except Exception as e:
        print(name, 'RAISES', type(e).__name__, e)
# unknown curve / binary curve / coordinates zero
for cid in (0, 7, 99):
    k = pb.ECKey(); k.ec_info.curve_type = cid if cid < 20 else 0
    try:
        print('curve', cid, paranoid.CheckAllEC([k]), [ (r.test_name, r.result) for r in k.test_info.test_results])
    except Exception as e:
        print('curve', cid, 'RAISES', type(e).__name__, e)
