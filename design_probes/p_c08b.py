import shim, time, random, hashlib, sys, json
from absl import logging as alog
alog.set_verbosity(alog.FATAL)
import gmpy2 as gmpy
from paranoid_crypto import paranoid_pb2 as pb
from paranoid_crypto.lib import paranoid, util, ec_util, ecdsa_sig_checks as sc, consts, lcg_constants
C = ec_util.CURVE_FACTORY
rnd = random.Random(77)
TABLE = {32: '29CF535', 33: '51F666D', 34: 'A3D73AD', 35: '147E5B85', 36: '28F725C5', 37: '51EE3105', 38: 'A3DD5CDD', 39: '147AF833D', 40: '28F5DA175', 56: 'AA7D735234C0DD', 64: 'BAECD515DAF0B49D', 100: '292787EBD3329AD7E7575E2FD', 128: '48A74F367FA7B5C8ACBB36901308FA85', 156: '78A7FDDDC43611B527C3F1D760F36E5D7FC7C45', 196: '41BA2E104EE34C66B3520CE706A56498DE6D44721E5E24F5', 200: '4E5A24C38B981EAFE84CD9D0BEC48E83911362C114F30072C5', 256: 'AF66BA932AAF58A071FD8F0742A99A0C76982D648509973DB802303128A14CB5'}
class GmpLc:
    def __init__(self, m2exp, seed):
        self.m2exp = m2exp; self.a = int(TABLE[m2exp], 16); self.c = 1; self.state = seed % (1 << m2exp)
    def chunk(self):
        self.state = (self.a * self.state + self.c) % (1 << self.m2exp)
        return self.state >> (self.m2exp // 2)
    def urandomb(self, nbits):
        cb = self.m2exp // 2; r = 0; pos = 0
        while pos + cb <= nbits:
            r |= self.chunk() << pos; pos += cb
        if pos != nbits:
            r |= (self.chunk() & ((1 << (nbits - pos)) - 1)) << pos
        return r
    def urandomm(self, n):
        nb = (n - 1).bit_length() if n & (n - 1) == 0 else n.bit_length()
        for _ in range(80):
            v = self.urandomb(nb)
            if v < n: return v
        return v - n
def mk(curve_id, d, Q, k, h):
    c = C[curve_id]; n = c.n
    R = c.Multiply(c.g, k); r = int(R[0]) % int(n)
    z = c.TransformOrderLen(int.from_bytes(h, 'big'), 8 * len(h))
    s = int(gmpy.invert(k, n) * (z + r * d) % n)
    sig = pb.ECDSASignature()
    sig.ecdsa_sig_info.r = util.Int2Bytes(r); sig.ecdsa_sig_info.s = util.Int2Bytes(s)
    sig.ecdsa_sig_info.message_hash = h
    sig.issuer_key_info.curve_type = curve_id
    sig.issuer_key_info.x = util.Int2Bytes(int(Q[0])); sig.issuer_key_info.y = util.Int2Bytes(int(Q[1]))
    return sig
def good(sigs, res, d, n):
    info = util.GetAttachedInfo(sigs[0].test_info, consts.INFO_NAME_DISCRETE_LOG)
    return bool(res and all(s.test_info.weak for s in sigs) and info is not None and int(info.value, 16) % n == d)
TR = 12
print('--- U2F: two signatures')
chk = sc.CheckCr50U2f()
for cid, c in C.items():
    if c is None: continue
    n = int(c.n); L = n.bit_length()
    ok = 0; tot = 0
    for tr in range(TR):
        d = rnd.randrange(1, n); Q = c.Multiply(c.g, d); ks = []
        while len(ks) < 2:
            k = sum((rnd.getrandbits(8) * 0x01010101) << (32 * j) for j in range(L // 32))
            if 0 < k < n: ks.append(k)
        sigs = [mk(cid, d, Q, k, hashlib.sha256(b'u%d-%d' % (tr, i)).digest()) for i, k in enumerate(ks)]
        res = chk.Check(sigs); ok += good(sigs, res, d, n); tot += 1
    print(c.name, 'bits', L, 'bits%32', L % 32, 'ok %d/%d' % (ok, tot), flush=True)
print('--- GMP LCG: sliding_window_size consecutive signatures')
chk = sc.CheckLCGNonceGMP()
for cst in lcg_constants.CONSTANT_FACTORY:
    if cst['lcg'] != lcg_constants.LcgName.GMP: continue
    cid = cst['curve']; c = C[cid]; n = int(c.n); m2exp = cst['lcg_size']
    for cnt_name in ('min_signatures', 'sliding_window_size'):
        cnt = cst[cnt_name]; ok = 0
        for tr in range(TR):
            g = GmpLc(m2exp, rnd.getrandbits(m2exp))
            d = rnd.randrange(1, n); Q = c.Multiply(c.g, d)
            ks = []
            while len(ks) < cnt:
                k = g.urandomm(n)
                if k: ks.append(k)
            sigs = [mk(cid, d, Q, k, hashlib.sha256(b'g%d-%d' % (tr, i)).digest()) for i, k in enumerate(ks)]
            res = chk.Check(sigs); ok += good(sigs, res, d, n)
        print(c.name, 'm2exp', m2exp, 'out', cst['lcg_output_size'], cnt_name, cnt, 'exact_chunks', n.bit_length() % (m2exp // 2) == 0, 'ok %d/%d' % (ok, TR), flush=True)
