import shim, time, random, sys, itertools
from absl import logging as alog
alog.set_verbosity(alog.FATAL)
import gmpy2 as gmpy
from paranoid_crypto.lib import ec_util
INF = ec_util.INFINITY
def points_of(p, a, b):
    sq = {}
    for y in range(p): sq.setdefault(y * y % p, []).append(y)
    pts = []
    for x in range(p):
        for y in sq.get((x * x * x + a * x + b) % p, []): pts.append((x, y))
    return pts
def ref_add(p, a, P, Q):
    if P == INF: return Q
    if Q == INF: return P
    x1, y1 = P; x2, y2 = Q
    if x1 == x2 and (y1 + y2) % p == 0: return INF
    if P == Q: l = (3 * x1 * x1 + a) * pow(2 * y1, -1, p) % p
    else: l = (y2 - y1) * pow(x2 - x1, -1, p) % p
    x3 = (l * l - x1 - x2) % p
    return (x3, (l * (x1 - x3) - y1) % p)
def find_curve(pmin, a_fixed=None, rnd=random.Random(1)):
    p = int(gmpy.next_prime(pmin))
    while True:
        a = a_fixed if a_fixed is not None else rnd.randrange(p)
        b = rnd.randrange(1, p)
        if (4 * a**3 + 27 * b * b) % p == 0: continue
        pts = points_of(p, a % p, b)
        order = len(pts) + 1
        if gmpy.is_prime(order):
            return p, a, b, pts, order
t = time.time()
for pmin, afix in ((200, None), (250, -3), (1000, None), (1000, -3), (4000, 0)):
    p, a, b, pts, order = find_curve(pmin, afix)
    g = pts[0]
    c = ec_util.EcCurve('tiny', a, b, p, g[0], g[1], order)
    # exhaustive group law: all pairs incl. infinity
    allpts = [INF] + [(gmpy.mpz(x), gmpy.mpz(y)) for x, y in pts]
    bad = 0; n = 0
    if order < 1500:
        for P in allpts:
            for Q in allpts:
                n += 1
                r = c.Add(P, Q); e = ref_add(p, a % p, tuple(map(lambda v: None if v is None else int(v), P)), tuple(map(lambda v: None if v is None else int(v), Q)))
                if (None if r[0] is None else (int(r[0]), int(r[1]))) != (None if e[0] is None else e) and not (r == INF and e == INF): bad += 1
    # scalar multiples table by reference
    mult = [INF]
    for i in range(1, order): mult.append(ref_add(p, a % p, mult[-1], g))
    badm = 0
    for k in list(range(-order - 2, 2 * order + 3)):
        r = c.Multiply(c.g, k); e = mult[k % order]
        if (r == INF) != (e == INF) or (r != INF and (int(r[0]), int(r[1])) != e): badm += 1
    # BatchDL exhaustive: all x in [0, bound) for several bounds and list lengths
    badd = 0; nd = 0
    for bound in (1, 2, 3, 7, 16, order // 3, order - 1, order):
        for ln in (1, 2, 5):
            c._table = {}; c._table_size = 0
            for start in range(0, bound, ln):
                xs = list(range(start, min(bound, start + ln)))
                ptsq = [c.Multiply(c.g, x) for x in xs]
                try:
                    res = c.BatchDL(ptsq, bound)
                except Exception as ex:
                    badd += 1; print('EXC', type(ex).__name__, ex, 'bound', bound, 'len', ln, xs); break
                for x, rr in zip(xs, res):
                    nd += 1
                    if rr is None or (rr - x) % order != 0: badd += 1; print('MISS', 'p', p, 'order', order, 'bound', bound, 'len', ln, 'x', x, 'got', rr)
    print('p', p, 'a', a, 'b', b, 'order', order, 'pairs', n, 'bad add', bad, 'bad mult', badm, 'DL queries', nd, 'bad', badd, '%.1fs' % (time.time() - t), flush=True)
