import shim, sys, random, copy
from fractions import Fraction
from absl import logging as alog
alog.set_verbosity(alog.FATAL)
rnd = random.Random(5)
which = sys.argv[1]
if which == 'f11':
    from paranoid_crypto.lib.randomness_tests import nist_suite
    import collections
    # string with many zero crossings, ending at zero: "10" * 600  (bit i: lsb first)
    for desc, pattern, n in (('ends at zero', '10' * 600, 1200), ('ends away', '10' * 600 + '11', 1202)):
        bits = int(pattern[::-1], 2)
        xs = [1 if (bits >> i) & 1 else -1 for i in range(n)]
        S = 0; zeros = 0
        for x in xs:
            S += x; zeros += (S == 0)
        J = zeros + (1 if S != 0 else 0)
        # observe code's excursion count through the variant statistic for a never-visited state, e.g. x=9:
        pv = dict(nist_suite.RandomWalk(bits, n))
        import math
        # variant p for x=9 with total_cnt[9]=0: erfc(J/sqrt(2J(4*9-2)))
        for Jc in (J, J + 1):
            print(desc, 'J candidate', Jc, 'p_variant9 model', math.erfc(abs(Jc - 0) / math.sqrt(2 * Jc * (4 * 9 - 2))), 'code', pv.get('random excursions variant 9'))
if which == 'f4fix':
    from paranoid_crypto.lib import linalg_util
    import inspect, types
    src = inspect.getsource(linalg_util)
    assert src.count('b.insert(nrows, b.pop(i))') == 1 and src.count('a.insert(nrows, a.pop(i))') == 1
    src2 = src.replace('b.insert(nrows, b.pop(i))', 'b.insert(nrows - 1, b.pop(i))').replace('a.insert(nrows, a.pop(i))', 'a.insert(nrows - 1, a.pop(i))')
    mod = types.ModuleType('linalg_fixed'); exec(compile(src2, 'linalg_fixed', 'exec'), mod.__dict__)
    for name, m in (('orig', linalg_util), ('fixed', mod)):
        rnd = random.Random(7); bad = 0; nonnone = 0; none_but_fullrank = 0; exc = 0
        for trial in range(60000):
            mm = rnd.randint(1, 6); n = rnd.randint(1, min(mm, 4))
            x = [rnd.randint(-3, 3) for _ in range(n)]
            a = [[rnd.randint(-2, 2) for _ in range(n)] for _ in range(mm)]
            for i in range(mm):
                r = rnd.random()
                if r < 0.15: a[i] = [0] * n
                elif r < 0.3 and i > 0:
                    j = rnd.randrange(i); c = rnd.randint(-2, 2); a[i] = [c * v for v in a[j]]
            b = [sum(ai * xi for ai, xi in zip(row, x)) for row in a]
            a0 = copy.deepcopy(a); b0 = list(b)
            try: sol = m.solve_right(a, b)
            except Exception as e:
                exc += 1; continue
            # true rank via fractions
            import sympy
            rk = sympy.Matrix(a0).rank()
            if sol is None:
                if rk == n: none_but_fullrank += 1
                continue
            nonnone += 1
            ok = all(sum(Fraction(int(ai)) * Fraction(int(s.numerator), int(s.denominator)) for ai, s in zip(row, sol)) == bi for row, bi in zip(a0, b0))
            if not ok: bad += 1
        print(name, 'nonnone', nonnone, 'bad', bad, 'None although full column rank', none_but_fullrank, 'exceptions', exc)
if which == 'gmp':
    from paranoid_crypto.lib.data import unseeded_rands
    TABLE = {32: '29CF535', 33: '51F666D', 34: 'A3D73AD', 35: '147E5B85', 36: '28F725C5', 37: '51EE3105', 38: 'A3DD5CDD', 39: '147AF833D', 40: '28F5DA175', 56: 'AA7D735234C0DD', 64: 'BAECD515DAF0B49D', 100: '292787EBD3329AD7E7575E2FD', 128: '48A74F367FA7B5C8ACBB36901308FA85', 156: '78A7FDDDC43611B527C3F1D760F36E5D7FC7C45', 196: '41BA2E104EE34C66B3520CE706A56498DE6D44721E5E24F5', 200: '4E5A24C38B981EAFE84CD9D0BEC48E83911362C114F30072C5', 256: 'AF66BA932AAF58A071FD8F0742A99A0C76982D648509973DB802303128A14CB5'}
    class GmpLc:
        def __init__(self, size, seed=1):
            m2exp = min(k for k in TABLE if k // 2 >= size)
            self.m2exp = m2exp; self.a = int(TABLE[m2exp], 16); self.c = 1; self.state = seed % (1 << m2exp)
        def chunk(self):
            self.state = (self.a * self.state + self.c) % (1 << self.m2exp)
            return self.state >> (self.m2exp // 2)
        def urandomb(self, nbits):
            cb = self.m2exp // 2; r = 0; pos = 0
            while pos + cb <= nbits:
                r |= self.chunk() << pos; pos += cb
            if pos != nbits:
                r |= (self.chunk() & ((1 << (nbits - pos)) - 1)) << pos
            return r
    g = GmpLc(32)
    mine = [g.urandomb(512) for _ in range(10)]
    lst = unseeded_rands.size_unseeded_map[512]
    print('512-bit size-32 unseeded: matches in list', sum(v in lst for v in mine), '/10')
    for sz in (1024, 1536, 2048):
        g = GmpLc(32); mine = [g.urandomb(sz) for _ in range(10)]
        print(sz, 'matches', sum(v in unseeded_rands.size_unseeded_map[sz] for v in mine), '/10')
    # the upstream GMP ECDSA vectors: recover nonces with private key if available
    import re
    from paranoid_crypto.lib import paranoid_ecdsa_test as t
    print([n for n in dir(t) if 'gmp' in n.lower()])
if which == 'ossl':
    from cryptography.hazmat.primitives.asymmetric import ec, utils as asym_utils
    from cryptography.hazmat.primitives import hashes
    from cryptography.hazmat.backends.openssl import backend
    print(backend.openssl_version_text())
    for cname in ('SECP192R1', 'SECP224R1', 'SECP256R1', 'SECP384R1', 'SECP521R1', 'SECP256K1', 'BrainpoolP256R1', 'BrainpoolP384R1', 'BrainpoolP512R1'):
        try:
            curve = getattr(ec, cname)()
            key = ec.derive_private_key(123456789, curve)
            outs = []
            for h in (hashes.MD5(), hashes.SHA1(), hashes.SHA224(), hashes.SHA256(), hashes.SHA384(), hashes.SHA512()):
                try:
                    sig = key.sign(b'\x01' * h.digest_size, ec.ECDSA(asym_utils.Prehashed(h)))
                    outs.append(h.digest_size)
                except Exception as e:
                    outs.append('%s:%s' % (h.name, type(e).__name__))
            try:
                sig = key.sign(b'abc', ec.ECDSA(hashes.SHA256(), deterministic_signing=True)); det = True
            except Exception as e:
                det = type(e).__name__
            print(cname, 'ok digests', outs, 'deterministic', det)
        except Exception as e:
            print(cname, 'UNSUPPORTED', type(e).__name__, e)
