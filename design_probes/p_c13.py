import shim, time, sys
from absl import logging as alog
alog.set_verbosity(alog.FATAL)
from paranoid_crypto.lib.randomness_tests import random_test_suite as rts, rng
n = 2**20
bits = rng.GetRng('shake128').RandomBits(n, seed=12345)
tot = 0
for test, params in rts.TESTS:
    t = time.time()
    try:
        r = test(bits, n, *params)
        npv = 1 if isinstance(r, (float, int)) else len(r)
        mn = r if npv == 1 and isinstance(r, (float,int)) else min(p for _, p in r) if r else None
    except Exception as e:
        r = type(e).__name__; npv = 0; mn = None
    dt = time.time() - t; tot += dt
    print('%-34s %-14s %6.2fs  npv=%d min=%s' % (test.__name__, params, dt, npv, mn), flush=True)
print('total', tot)
