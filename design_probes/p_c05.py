import shim, time, random, sys, math
from absl import logging as alog
alog.set_verbosity(alog.FATAL)
import gmpy2 as gmpy
from paranoid_crypto import paranoid_pb2 as pb
from paranoid_crypto.lib import paranoid, util, rsa_single_checks as rs, consts, ntheory_util
rnd = random.Random(int(sys.argv[1]) if len(sys.argv) > 1 else 3)
def key(n, e=65537):
    k = pb.RSAKey(); k.rsa_info.n = util.Int2Bytes(int(n)); k.rsa_info.e = util.Int2Bytes(e); return k
def rp(bits):
    return int(gmpy.next_prime(rnd.getrandbits(bits) | (3 << (bits-2))))
def repeat_word(word, w, bits):
    reps = -(-bits // w)
    v = 0
    for i in range(reps): v |= word << (i * w)
    v &= (1 << bits) - 1
    return v
def patterned_prime(bits, w, dev_bits=32, swap=None):
    while True:
        word = rnd.getrandbits(w) | 1 | (1 << (w-1))
        # align so that the top bits are set: rotate so that msb of prime is 1
        v = repeat_word(word, w, bits + w) >> rnd.randrange(w)
        v &= (1 << bits) - 1
        if swap:
            limbs = [(v >> (i * swap)) & ((1 << swap) - 1) for i in range(bits // swap)]
            for i in range(0, len(limbs) - 1, 2): limbs[i], limbs[i+1] = limbs[i+1], limbs[i]
            v = sum(l << (i * swap) for i, l in enumerate(limbs))
        if v.bit_length() != bits or not (v >> (bits - 2)) & 1: continue
        base = v >> dev_bits << dev_bits
        for _ in range(4000):
            c = base | rnd.getrandbits(dev_bits) | 1
            if gmpy.is_prime(c): return int(c), word
def run(chk, n, p):
    k = key(n); r = chk.Check([k]); f = util.GetAttachedFactors(k.test_info, consts.INFO_NAME_N_FACTORS)
    return r, (f is not None and p in f)
TR = 3
print('--- (a) CheckBitPatterns: one prime repeats w-bit word except 32 low bits')
chk = rs.CheckBitPatterns()
for nbits in (1024, 2048, 4096):
    sizes = [w for w in list(range(1, 16, 2)) + [31, 63, 127, 255, 511] + [8, 16, 32, 64, 128, 256] if w <= nbits // 16 and w >= 2]
    for w in sorted(sizes):
        ok = 0; t = time.time()
        for _ in range(TR):
            p, word = patterned_prime(nbits // 2, w); q = rp(nbits // 2); n = p * q
            r, f = run(chk, n, p); ok += (r and f)
        print(nbits, 'w', w, 'ok %d/%d' % (ok, TR), '%.1fs' % (time.time() - t), flush=True)
print('--- (b) permuted')
chk = rs.CheckPermutedBitPatterns()
for nbits in (1024, 2048, 4096):
    for wsize in (8, 16, 32, 64):
        for psize in range(3, wsize, 2):
            d = (2**psize - 1) * (2**(psize*wsize) + 1) // (2**wsize + 1)
            if d.bit_length() > nbits // 10: break
            ok = 0; t = time.time()
            for _ in range(TR):
                p, word = patterned_prime(nbits // 2, psize, dev_bits=32, swap=wsize); q = rp(nbits // 2); n = p * q
                r, f = run(chk, n, p); ok += (r and f)
            print(nbits, 'wsize', wsize, 'psize', psize, 'dbits', d.bit_length(), 'ok %d/%d' % (ok, TR), '%.1fs' % (time.time() - t), flush=True)
