import shim, sys, json, time
from absl import logging as alog
alog.set_verbosity(alog.FATAL)
from paranoid_crypto.lib.randomness_tests import random_test_suite as rts, rng, nist_suite
gen, lo, hi, logn = sys.argv[1], int(sys.argv[2]), int(sys.argv[3]), int(sys.argv[4])
n = 2 ** logn
out = {}
g = rng.GetRng(gen)
for seed in range(lo, hi):
    bits = g.RandomBits(n, seed=seed * 7919 + 13)
    for test, params in rts.TESTS:
        if test.__name__ == 'FindBias': continue
        name = test.__name__ + (str(params) if params else '')
        try:
            r = test(bits, n, *params)
        except nist_suite.InsufficientDataError:
            continue
        if isinstance(r, (float, int)): r = [('result', r)]
        for k, p in r:
            out.setdefault(name + '/' + k, []).append(float(p))
json.dump(out, open('/tmp/probe/pop_%s_%d_%d_%d.json' % (gen, logn, lo, hi), 'w'))
