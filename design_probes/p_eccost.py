import shim, time, resource, random
from absl import logging as alog
alog.set_verbosity(alog.FATAL)
from paranoid_crypto import paranoid_pb2 as pb
from paranoid_crypto.lib import paranoid, util, ec_util, ec_single_checks, ec_aggregate_checks
C = ec_util.CURVE_FACTORY
rnd = random.Random(5)
def key(curve_id, d):
    c = C[curve_id]; pt = c.Multiply(c.g, d)
    k = pb.ECKey(); k.ec_info.curve_type = curve_id
    k.ec_info.x = util.Int2Bytes(int(pt[0])); k.ec_info.y = util.Int2Bytes(int(pt[1]))
    return k
P256 = pb.CurveType.CURVE_SECP256R1
def rss(): return resource.getrusage(resource.RUSAGE_SELF).ru_maxrss // 1024
keys = [key(P256, rnd.getrandbits(255)) for _ in range(3)]
t=time.time(); r = ec_single_checks.CheckWeakECPrivateKey().Check(keys); print('weakpriv 3 keys', r, time.time()-t, 'rss MB', rss(), 'table', C[P256]._table_size)
t=time.time(); r = ec_aggregate_checks.CheckECKeySmallDifference().Check(keys); print('smalldiff default 2^24', r, time.time()-t, 'rss MB', rss(), 'table', C[P256]._table_size)
t=time.time(); r = ec_aggregate_checks.CheckECKeySmallDifference().Check(keys); print('smalldiff again', r, time.time()-t, 'rss MB', rss())
t=time.time(); r = ec_single_checks.CheckWeakECPrivateKey().Check(keys); print('weakpriv again (cached big table)', r, time.time()-t, 'rss MB', rss())
