"""Scratch probe: build paranoid_pb2/data_pb2 at runtime from .proto, BM via ctypes."""
import re, sys, os, types, ctypes, subprocess, importlib
from google.protobuf import descriptor_pb2, descriptor_pool
from google.protobuf.internal import builder

REPO = os.environ.get('REPO', '/repo')
SCALARS = {'bytes': 12, 'string': 9, 'bool': 8, 'uint64': 4, 'int64': 3, 'uint32': 13, 'int32': 5, 'double':1, 'float':2}

def parse_proto(path, name):
    src = open(path).read()
    src = re.sub(r'//[^\n]*', '', src)
    fdp = descriptor_pb2.FileDescriptorProto()
    fdp.name = name
    fdp.syntax = re.search(r'syntax\s*=\s*"(\w+)"', src).group(1)
    pkg = re.search(r'package\s+([\w.]+)\s*;', src).group(1)
    fdp.package = pkg
    enums = set()
    for m in re.finditer(r'enum\s+(\w+)\s*\{([^}]*)\}', src):
        e = fdp.enum_type.add(); e.name = m.group(1); enums.add(e.name)
        for v in re.finditer(r'(\w+)\s*=\s*(\d+)\s*;', m.group(2)):
            ev = e.value.add(); ev.name = v.group(1); ev.number = int(v.group(2))
    for m in re.finditer(r'message\s+(\w+)\s*\{([^}]*)\}', src):
        msg = fdp.message_type.add(); msg.name = m.group(1)
        for f in re.finditer(r'(repeated\s+)?(map\s*<\s*(\w+)\s*,\s*(\w+)\s*>|[\w.]+)\s+(\w+)\s*=\s*(\d+)\s*;', m.group(2)):
            rep, typ, mk, mv, fname, num = f.groups()
            fd = msg.field.add(); fd.name = fname; fd.number = int(num)
            fd.json_name = re.sub(r'_(\w)', lambda x: x.group(1).upper(), fname)
            def settype(fd, t):
                if t in SCALARS: fd.type = SCALARS[t]
                elif t in enums: fd.type = 14; fd.type_name = '.%s.%s' % (pkg, t)
                else: fd.type = 11; fd.type_name = '.%s.%s' % (pkg, t)
            if mk:
                ent = msg.nested_type.add()
                ent.name = ''.join(w.capitalize() for w in fname.split('_')) + 'Entry'
                ent.options.map_entry = True
                k = ent.field.add(); k.name='key'; k.number=1; k.label=1; settype(k, mk); k.json_name='key'
                v = ent.field.add(); v.name='value'; v.number=2; v.label=1; settype(v, mv); v.json_name='value'
                fd.label = 3; fd.type = 11; fd.type_name = '.%s.%s.%s' % (pkg, msg.name, ent.name)
            else:
                fd.label = 3 if rep else 1
                settype(fd, typ)
    return fdp

def install_pb2():
    for proto, modname in (('paranoid_crypto/paranoid.proto', 'paranoid_crypto.paranoid_pb2'),
                          ('paranoid_crypto/lib/data/data.proto', 'paranoid_crypto.lib.data.data_pb2')):
        fdp = parse_proto(os.path.join(REPO, proto), proto)
        fd = descriptor_pool.Default().AddSerializedFile(fdp.SerializeToString())
        mod = types.ModuleType(modname)
        g = mod.__dict__
        g['DESCRIPTOR'] = fd
        builder.BuildMessageAndEnumDescriptors(fd, g)
        builder.BuildTopDescriptorsAndMessages(fd, modname, g)
        sys.modules[modname] = mod
        parent, _, leaf = modname.rpartition('.')
        setattr(importlib.import_module(parent), leaf, mod)

def install_bm(flags=('-mpclmul',), so='/tmp/probe/bm.so'):
    shim = '/tmp/probe/bm_shim.cc'
    open(shim, 'w').write('''
#include "paranoid_crypto/lib/randomness_tests/cc_util/berlekamp_massey.h"
extern "C" int vp_lfsr_length(const char* p, size_t len, int n) {
  return paranoid_crypto::lib::randomness_tests::cc_util::LfsrLengthStr(std::string(p, len), n);
}
''')
    if not os.path.exists(so): subprocess.check_call(['g++', '-O2', '-std=c++17', '-shared', '-fPIC', *flags, '-I', REPO, shim,
        os.path.join(REPO, 'paranoid_crypto/lib/randomness_tests/cc_util/berlekamp_massey.cc'), '-o', so])
    lib = ctypes.CDLL(so)
    lib.vp_lfsr_length.argtypes = [ctypes.c_char_p, ctypes.c_size_t, ctypes.c_int]
    lib.vp_lfsr_length.restype = ctypes.c_int
    modname = 'paranoid_crypto.lib.randomness_tests.cc_util.pybind.berlekamp_massey'
    mod = types.ModuleType(modname)
    def LfsrLength(ba, n):
        return lib.vp_lfsr_length(bytes(ba), len(ba), n)
    mod.LfsrLength = LfsrLength
    sys.modules[modname] = mod
    import paranoid_crypto.lib.randomness_tests.cc_util.pybind as parent
    parent.berlekamp_massey = mod

sys.path.insert(0, REPO)
install_pb2()
install_bm()
