import shim, time, random, hashlib, sys, json, itertools
from absl import logging as alog
alog.set_verbosity(alog.FATAL)
import gmpy2 as gmpy
from paranoid_crypto import paranoid_pb2 as pb
from paranoid_crypto.lib import paranoid, util, ec_util, ecdsa_sig_checks as sc, consts
C = ec_util.CURVE_FACTORY
shard, nshards = int(sys.argv[1]), int(sys.argv[2])
TR = int(sys.argv[3]) if len(sys.argv) > 3 else 8
rnd = random.Random(1000 + shard)
def mk(curve_id, d, Q, k, h):
    c = C[curve_id]; n = c.n
    R = c.Multiply(c.g, k); r = int(R[0]) % int(n)
    z = c.TransformOrderLen(int.from_bytes(h, 'big'), 8 * len(h))
    s = int(gmpy.invert(k, n) * (z + r * d) % n)
    if r == 0 or s == 0: return None
    sig = pb.ECDSASignature()
    sig.ecdsa_sig_info.r = util.Int2Bytes(r); sig.ecdsa_sig_info.s = util.Int2Bytes(s)
    sig.ecdsa_sig_info.message_hash = h
    sig.issuer_key_info.curve_type = curve_id
    sig.issuer_key_info.x = util.Int2Bytes(int(Q[0])); sig.issuer_key_info.y = util.Int2Bytes(int(Q[1]))
    return sig
def nonces(kind, n, bits, count):
    L = n.bit_length()
    if kind == 'msb':
        return [rnd.randrange(1, 1 << (L - bits)) for _ in range(count)]
    if kind == 'prefix':
        hi = L - bits
        while True:
            pre = rnd.getrandbits(bits)
            if ((pre + 1) << hi) <= n and pre: break
        return [(pre << hi) | rnd.getrandbits(hi) for _ in range(count)]
    if kind == 'postfix':
        post = rnd.getrandbits(bits); out = []
        while len(out) < count:
            k = (rnd.getrandbits(L - bits) << bits) | post
            if 0 < k < n: out.append(k)
        return out
    if kind == 'gen':
        m = rnd.randrange(1, n); mi = int(gmpy.invert(m, n))
        return [b * mi % n for b in nonces('prefix', n, bits, count)]
checks = {'msb': sc.CheckNonceMSB(), 'prefix': sc.CheckNonceCommonPrefix(), 'postfix': sc.CheckNonceCommonPostfix(), 'gen': sc.CheckNonceGeneralized()}
curves = {'p224': pb.CurveType.CURVE_SECP224R1, 'p256': pb.CurveType.CURVE_SECP256R1, 'k256': pb.CurveType.CURVE_SECP256K1, 'p384': pb.CurveType.CURVE_SECP384R1, 'bp512': pb.CurveType.CURVE_BRAINPOOLP512R1, 'p521': pb.CurveType.CURVE_SECP521R1}
cells = []
for cname in curves:
    for kind in checks:
        for bits in (16, 24, 32, 48, 64, 96, 128, 160):
            for f in (1.0, 1.25, 1.5, 2.0):
                L = int(C[curves[cname]].n).bit_length()
                if L > 500 and bits < 24: continue
                cnt = -(-int(2 * L * f) // bits)
                if kind == 'gen': cnt = max(cnt, 24)
                cells.append((cname, kind, bits, f, cnt))
cells = sorted(set(cells))
out = []
for idx, (cname, kind, bits, f, cnt) in enumerate(cells):
    if idx % nshards != shard: continue
    cid = curves[cname]; c = C[cid]; n = int(c.n); ok = 0; t0 = time.time()
    for tr in range(TR):
        d = rnd.randrange(1, n); Q = c.Multiply(c.g, d)
        ks = nonces(kind, n, bits, cnt)
        sigs = [mk(cid, d, Q, k, hashlib.sha256(b'%d-%d-%d' % (shard, tr, i)).digest()) for i, k in enumerate(ks)]
        sigs = [s for s in sigs if s]
        res = checks[kind].Check(sigs)
        info = util.GetAttachedInfo(sigs[0].test_info, consts.INFO_NAME_DISCRETE_LOG)
        good = res and all(s.test_info.weak for s in sigs) and info is not None and int(info.value, 16) % n == d
        ok += bool(good)
    out.append({'curve': cname, 'kind': kind, 'bits': bits, 'f': f, 'count': cnt, 'ok': ok, 'trials': TR, 'sec': round(time.time() - t0, 1)})
    json.dump(out, open('/tmp/probe/c08map_%d.json' % shard, 'w'))
