import shim, time, random, sys, traceback
from absl import logging as alog
alog.set_verbosity(alog.FATAL)
import gmpy2 as gmpy
from paranoid_crypto import paranoid_pb2 as pb
from paranoid_crypto.lib import paranoid, util, ec_util, ec_aggregate_checks
ec_aggregate_checks.CheckECKeySmallDifference.__init__.__defaults__ = (2**8,)
rnd = random.Random(4)
def key(n, e=65537):
    k = pb.RSAKey(); k.rsa_info.n = util.Int2Bytes(int(n)); k.rsa_info.e = util.Int2Bytes(int(e)); return k
P = int(gmpy.next_prime(2**63 + rnd.getrandbits(40)))
cases = {
 'prime64': P, 'sq': P * P, 'even': 2 * P, 'pow2_63': 2**63, 'pow2_2047': 2**2047, 'pow2_2048m1': 2**2048 - 1,
 'odd_bits_65': int(gmpy.next_prime(2**32 + 5)) * int(gmpy.next_prime(2**32 + 999)),
 'n_mod8_1_small': 2**64 + 1, 'prime2048': int(gmpy.next_prime(2**2047 + rnd.getrandbits(2000))),
 'cube': int(gmpy.next_prime(2**22))**3, 'threeprimes': P * int(gmpy.next_prime(P + 1000)) * int(gmpy.next_prime(2**64)),
}
for name, n in cases.items():
    for e in (65537, 3, 0, 2**70 + 1):
        for chkname, chk in paranoid.GetRSAAllChecks().items():
            k = key(n, e)
            try:
                t = time.time(); r = chk.Check([k]); dt = time.time() - t
                if not isinstance(r, bool): print(name, chkname, 'non-bool', type(r))
                if dt > 5: print(name, chkname, 'slow %.1fs' % dt)
            except Exception as ex:
                print('RAISE', name, 'e', e, chkname, type(ex).__name__, ex)
        if e != 65537: continue
print('rsa degenerate done')
# duplicates & batch
ks = [key(cases['sq']), key(cases['sq']), key(cases['even']), key(P)]
try: print('dup batch', paranoid.CheckAllRSA(ks))
except Exception as ex: print('RAISE dup batch', type(ex).__name__, ex)
# EC: hostile coordinates
C = ec_util.CURVE_FACTORY
def eck(cid, x, y):
    k = pb.ECKey(); k.ec_info.curve_type = cid; k.ec_info.x = util.Int2Bytes(int(x)); k.ec_info.y = util.Int2Bytes(int(y)); return k
for cid, c in C.items():
    if c is None: continue
    p = int(c.mod); gx, gy = int(c.g[0]), int(c.g[1])
    pts = {'zero': (0, 0), 'x0': (0, 1), 'y0': (gx, 0), 'p_p': (p, p), 'gx+p': (gx + p, gy), 'gy+p': (gx, gy + p), 'huge': (2**600 + 3, 2**599 + 7), 'neg_g': (gx, p - gy), 'g': (gx, gy), 'off': (gx, gy + 1)}
    for name, (x, y) in pts.items():
        for chkname, chk in paranoid.GetECAllChecks().items():
            try:
                r = chk.Check([eck(cid, x, y)])
            except Exception as ex:
                print('RAISE', c.name, name, chkname, type(ex).__name__, ex)
    # pair batches
    for a, b in (('g', 'gx+p'), ('g', 'neg_g'), ('g', 'g'), ('zero', 'zero'), ('y0', 'y0'), ('off', 'g'), ('huge', 'g')):
        for chkname, chk in paranoid.GetECAllChecks().items():
            try:
                r = chk.Check([eck(cid, *pts[a]), eck(cid, *pts[b])])
            except Exception as ex:
                print('RAISE pair', c.name, a, b, chkname, type(ex).__name__, ex)
    print('ec', c.name, 'done', flush=True)
