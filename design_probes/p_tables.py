import sys
sys.path.insert(0, '/repo')
from fractions import Fraction
import mpmath as mp
mp.mp.dps = 40
# longest run of ones distribution in M-bit block: P(longest <= k)
def longest_le(M, k):
    # number of binary strings of length M with no run of ones longer than k
    # a[i] = count for length i
    a = [0] * (M + 1)
    for i in range(M + 1):
        if i <= k: a[i] = 2 ** i
        else: a[i] = sum(a[i - j - 1] for j in range(k + 1))
    return a[M]
for M, lo, hi, lit in ((8, 1, 4, [0.2148, 0.3672, 0.2305, 0.1875]), (128, 4, 9, [0.1174, 0.2430, 0.2493, 0.1752, 0.1027, 0.1124]), (10000, 10, 16, [0.0882, 0.2092, 0.2483, 0.1933, 0.1208, 0.0675, 0.0727])):
    tot = 2 ** M
    cdf = {k: Fraction(longest_le(M, k), tot) for k in range(lo - 1, hi)}
    probs = [cdf[lo]] + [cdf[k] - cdf[k - 1] for k in range(lo + 1, hi)] + [1 - cdf[hi - 1]]
    print(M, [round(float(p), 6) for p in probs]); print('   lit', lit, 'maxdiff', max(abs(float(p) - l) for p, l in zip(probs, lit)))
# rank distribution 32x32
def rank_prob(r, Q, M):
    p = mp.mpf(2) ** (r * (Q + M - r) - M * Q)
    for i in range(r):
        p *= (1 - mp.mpf(2) ** (i - Q)) * (1 - mp.mpf(2) ** (i - M)) / (1 - mp.mpf(2) ** (i - r))
    return p
print('rank32', [mp.nstr(rank_prob(32 - j, 32, 32), 10) for j in range(6)])
print('   lit', [0.28878809, 0.57757619, 0.12835026, 0.00523879, 0.00004657, 0.00000010])
# asymptotic rank sf
def asym(k):
    # P(rank <= n-k) for n->inf: sum_{j>=k} 2^{-j^2} prod_{i>j}(1-2^-i) / prod_{i<=j}(1-2^-i)
    def pj(j):
        num = mp.mpf(1)
        for i in range(j + 1, 400): num *= (1 - mp.mpf(2) ** (-i))
        den = mp.mpf(1)
        for i in range(1, j + 1): den *= (1 - mp.mpf(2) ** (-i))
        return mp.mpf(2) ** (-j * j) * num / den
    return sum(pj(j) for j in range(k, k + 12))
print('asym sf', [mp.nstr(asym(k), 6) for k in range(0, 8)])
print('   lit', [1.0, 0.711212, 0.133636, 0.00528545, 4.6664e-05, 9.69625e-08, 4.88413e-11, 6.05577e-15])
# universal expected value / variance of log2 distance
def universal(L):
    q = mp.mpf(2) ** (-L)
    E = mp.nsum(lambda i: q * (1 - q) ** (i - 1) * mp.log(i, 2), [1, mp.inf])
    E2 = mp.nsum(lambda i: q * (1 - q) ** (i - 1) * mp.log(i, 2) ** 2, [1, mp.inf])
    return E, E2 - E * E
lit = {1: (0.7326495, 0.690), 2: (1.5374383, 1.338), 3: (2.4016068, 1.901), 6: (5.2177052, 2.954), 7: (6.1962507, 3.125), 8: (7.1836656, 3.238), 12: (11.168765, 3.401), 16: (15.167379, 3.421)}
for L, (e, v) in lit.items():
    E, V = universal(L)
    print('universal L', L, mp.nstr(E, 9), mp.nstr(V, 5), 'lit', e, v)
