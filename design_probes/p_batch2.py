import shim, sys, random, itertools, hashlib, copy, time
from absl import logging as alog
alog.set_verbosity(alog.FATAL)
import gmpy2 as gmpy
from paranoid_crypto import paranoid_pb2 as pb
from paranoid_crypto.lib import paranoid, util, ec_util, ntheory_util as nt, ec_aggregate_checks, ec_single_checks
ec_aggregate_checks.CheckECKeySmallDifference.__init__.__defaults__ = (2**8,)
rnd = random.Random(12)
which = sys.argv[1]
INF = ec_util.INFINITY
def ref_add(p, a, P, Q):
    if P == INF: return Q
    if Q == INF: return P
    x1, y1 = P; x2, y2 = Q
    if x1 == x2 and (y1 + y2) % p == 0: return INF
    if P == Q: l = (3 * x1 * x1 + a) * pow(2 * y1, -1, p) % p
    else: l = (y2 - y1) * pow(x2 - x1, -1, p) % p
    x3 = (l * l - x1 - x2) % p
    return (x3, (l * (x1 - x3) - y1) % p)
def ref_mul(p, a, P, k, order):
    k %= order; R = INF; A = P
    while k:
        if k & 1: R = ref_add(p, a, R, A)
        A = ref_add(p, a, A, A); k >>= 1
    return R
def norm(P): return INF if P[0] is None else (int(P[0]), int(P[1]))
if which == 'c11':
    bad = 0; tot = 0
    for cid, c in ec_util.CURVE_FACTORY.items():
        if c is None: continue
        p, a, n = int(c.mod), int(c.a) % int(c.mod), int(c.n); G = norm(c.g)
        pts_s = [0, 1, -1, 2, n - 1, n, n + 1, 3, rnd.randrange(n), rnd.randrange(n)]
        pts = [ref_mul(p, a, G, k, n) for k in pts_s]
        gm = lambda P: INF if P == INF else (gmpy.mpz(P[0]), gmpy.mpz(P[1]))
        # scalars incl. comb boundaries
        steps = (n.bit_length() + 7) // 8
        scal = [0, 1, -1, 2, n - 1, n, n + 1, -n, 2 * n + 5, 1 << steps, (1 << steps) - 1, (1 << (n.bit_length() - 1)), (1 << n.bit_length()) - 1, sum(1 << j for j in range(0, n.bit_length(), steps))] + [rnd.randrange(n) for _ in range(10)]
        res = c.BatchMultiplyG(scal)
        for k, r in zip(scal, res):
            tot += 1
            if norm(r) != ref_mul(p, a, G, k, n): bad += 1; print('BatchMultiplyG', c.name, k)
        for k in scal[:14]:
            for P in pts[:6]:
                tot += 1
                if norm(c.Multiply(gm(P), k)) != ref_mul(p, a, P, k, n): bad += 1; print('Multiply', c.name, k, P == INF)
        # batched ops with mixtures
        for trial in range(60):
            ln = rnd.randint(0, 6)
            L1 = [rnd.choice(pts) for _ in range(ln)]; L2 = [rnd.choice(pts) for _ in range(ln)]
            P = rnd.choice(pts)
            exp = [ref_add(p, a, x, y) for x, y in zip(L1, L2)]
            got = [norm(x) for x in c.BatchAddList([gm(x) for x in L1], [gm(x) for x in L2])]
            tot += 1; bad += got != exp
            if got != exp: print('BatchAddList', c.name)
            got = [norm(x) for x in c.BatchAdd(gm(P), [gm(x) for x in L1])]; exp = [ref_add(p, a, P, x) for x in L1]
            tot += 1; bad += got != exp
            if got != exp: print('BatchAdd', c.name)
            got = [None if x is None else int(x) for x in c.BatchAddX(gm(P), [gm(x) for x in L1])]; expx = [e[0] for e in exp]
            tot += 1; bad += got != expx
            if got != expx: print('BatchAddX', c.name, got, expx)
            sums, diffs = c.BatchAddSubtractX(gm(P), [gm(x) for x in L1])
            neg = lambda Q: INF if Q == INF else (Q[0], (-Q[1]) % p)
            expd = [ref_add(p, a, P, neg(x))[0] for x in L1]
            tot += 1; ok = [None if x is None else int(x) for x in sums] == expx and [None if x is None else int(x) for x in diffs] == expd; bad += not ok
            if not ok: print('BatchAddSubtractX', c.name)
            got = [norm(x) for x in c.BatchDouble([gm(x) for x in L1])]; expdd = [ref_add(p, a, x, x) for x in L1]
            tot += 1; bad += got != expdd
            if got != expdd: print('BatchDouble', c.name)
    print('c11 named', 'tot', tot, 'bad', bad)
if which == 'c19':
    bad = 0; tot = 0
    for k in range(0, 13):
        for n in range(0, 2 ** min(k + 2, 12)):
            tot += 1
            inv = nt.Inverse2exp(n, k)
            if n % 2 == 0:
                if inv is not None: bad += 1; print('Inverse2exp even', n, k)
            else:
                if inv is None or (inv * n - 1) % 2 ** k != 0 or not (0 <= inv < max(2 ** k, 4)): bad += 1; print('Inverse2exp', n, k, inv)
            isq = nt.InverseSqrt2exp(n, k)
            exists = any((a * a * n - 1) % 2 ** k == 0 for a in range(2 ** k)) if k >= 1 else True
            if isq is None:
                if exists: bad += 1; print('InverseSqrt none but exists', n, k)
            elif (isq * isq * n - 1) % 2 ** k != 0: bad += 1; print('InverseSqrt wrong', n, k, isq)
            if n % 2 == 1:
                roots = nt.Sqrt2exp(n, k)
                true = sorted(x for x in range(2 ** k) if (x * x - n) % 2 ** k == 0)
                if sorted(set(int(r) for r in roots)) != true: bad += 1; print('Sqrt2exp', n, k, roots, true)
    print('c19 2-adic exhaustive tot', tot, 'bad', bad)
    from fractions import Fraction
    for _ in range(3000):
        a = rnd.getrandbits(rnd.randint(1, 300)); b = rnd.getrandbits(rnd.randint(1, 300)) + 1
        cf = nt.ContinuedFraction(a, b); tot += 1
        # convergents check
        qs = [q for q, _, _ in cf]
        num, den = 1, 0; pn, pd = 0, 1
        ok = True
        h0, h1, k0, k1 = 0, 1, 1, 0
        for (q, r, t) in cf:
            h0, h1 = h1, q * h1 + h0; k0, k1 = k1, q * k1 + k0
            ok &= (r, t) == (h1, k1)
        ok &= Fraction(h1, k1) == Fraction(a, b)
        x, y = nt.DivmodRounded(a, b)
        ok &= (x * b + y == a) and abs(Fraction(y)) <= Fraction(b, 2)
        if not ok: bad += 1; print('cf/divmod', a, b)
    for n in (0, 1, 2, 3, 10, 100, 1000, 7919, 7920):
        try:
            s = nt.Sieve(n); ok = s == [i for i in range(2, n) if all(i % j for j in range(2, int(i ** .5) + 1))]
        except Exception as e:
            ok = False; print('Sieve exc', n, type(e).__name__, e)
        tot += 1; bad += not ok
        if not ok: print('Sieve', n)
    print('c19 tot', tot, 'bad', bad)
if which == 'c16':
    # history monotonicity on RSA keys with repeated / reordered checks
    def key(n, e=65537):
        k = pb.RSAKey(); k.rsa_info.n = util.Int2Bytes(int(n)); k.rsa_info.e = util.Int2Bytes(e); return k
    def rp(bits): return int(gmpy.next_prime(rnd.getrandbits(bits) | (3 << (bits - 2))))
    p = rp(512); keys = [key(p * int(gmpy.next_prime(p + 2**20))), key(rp(1024) * rp(1024)), key(p * rp(512)), key(2**1023 * 2)]
    # pre-annotate
    tr = keys[1].test_info.test_results.add(); tr.test_name = 'CheckFermat'; tr.result = True; tr.severity = 4
    keys[1].test_info.weak = True; keys[1].test_info.paranoid_lib_version = '0.0.1'
    util.AttachFactors(keys[1].test_info, 'N_FACTORS', [3])
    checks = list(paranoid.GetRSAAllChecks().items())
    def snap(k): return (k.test_info.weak, {r.test_name: (r.result, r.severity) for r in k.test_info.test_results}, [r.test_name for r in k.test_info.test_results], util.GetAttachedFactors(k.test_info, 'N_FACTORS') or set(), k.test_info.paranoid_lib_version)
    viol = 0
    for step in range(25):
        name, chk = rnd.choice(checks)
        before = [snap(k) for k in keys]
        if step % 7 == 6: paranoid.CheckAllRSA(keys)
        else: chk.Check(keys)
        for b, k in zip(before, keys):
            a = snap(k)
            if b[0] and not a[0]: viol += 1; print('weak cleared', name)
            for t, (r, s) in b[1].items():
                if t not in a[1] or (r and not a[1][t][0]) or a[1][t][1] < s: viol += 1; print('entry regressed', t, name)
            if len(a[2]) != len(set(a[2])): viol += 1; print('dup entries', name)
            if not b[3] <= a[3]: viol += 1; print('factors lost', name)
            if a[0] != any(r for r, _ in a[1].values()): viol += 1; print('weak != OR', name, a[0], a[1])
            if not a[4]: viol += 1; print('no version')
    print('c16 history violations', viol, [snap(k)[0] for k in keys], snap(keys[1])[4])
