import shim, time, random, hashlib, sys
from absl import logging as alog
alog.set_verbosity(alog.FATAL)
import gmpy2 as gmpy
from paranoid_crypto import paranoid_pb2 as pb
from paranoid_crypto.lib import paranoid, util, ec_util, ecdsa_sig_checks as sc, consts
C = ec_util.CURVE_FACTORY
rnd = random.Random(int(sys.argv[1]) if len(sys.argv) > 1 else 11)
def sign(curve_id, d, k, msg_hash):
    c = C[curve_id]; n = c.n
    R = c.Multiply(c.g, k); r = int(R[0]) % int(n)
    z = c.TransformOrderLen(int.from_bytes(msg_hash, 'big'), 8*len(msg_hash))
    s = int(gmpy.invert(k, n) * (z + r * d) % n)
    return r, s
def mk(curve_id, d, Q, k, h):
    r, s = sign(curve_id, d, k, h)
    if r == 0 or s == 0: return None
    sig = pb.ECDSASignature()
    sig.ecdsa_sig_info.r = util.Int2Bytes(r); sig.ecdsa_sig_info.s = util.Int2Bytes(s)
    sig.ecdsa_sig_info.message_hash = h
    sig.issuer_key_info.curve_type = curve_id
    sig.issuer_key_info.x = util.Int2Bytes(int(Q[0])); sig.issuer_key_info.y = util.Int2Bytes(int(Q[1]))
    return sig
def nonces(kind, n, bits, count):
    L = n.bit_length()
    if kind == 'msb':
        return [rnd.randrange(1, 1 << (L - bits)) for _ in range(count)]
    if kind == 'prefix':
        pre = rnd.getrandbits(bits) ; hi = L - bits
        out = []
        while len(out) < count:
            k = (pre << hi) | rnd.getrandbits(hi)
            if 0 < k < n: out.append(k)
            else: pre = rnd.getrandbits(bits - 1); 
        return out
    if kind == 'postfix':
        post = rnd.getrandbits(bits); out = []
        while len(out) < count:
            k = (rnd.getrandbits(L - bits) << bits) | post
            if 0 < k < n: out.append(k)
        return out
    if kind == 'gen':
        m = rnd.randrange(1, n); mi = int(gmpy.invert(m, n))
        base = nonces('prefix', n, bits, count)
        return [b * mi % n for b in base]
checks = {'msb': sc.CheckNonceMSB(), 'prefix': sc.CheckNonceCommonPrefix(), 'postfix': sc.CheckNonceCommonPostfix(), 'gen': sc.CheckNonceGeneralized()}
curves = {'p256': pb.CurveType.CURVE_SECP256R1, 'k256': pb.CurveType.CURVE_SECP256K1, 'p384': pb.CurveType.CURVE_SECP384R1, 'p521': pb.CurveType.CURVE_SECP521R1, 'bp256': pb.CurveType.CURVE_BRAINPOOLP256R1, 'p224': pb.CurveType.CURVE_SECP224R1, 'bp512': pb.CurveType.CURVE_BRAINPOOLP512R1}
TR = 4
for cname, cid in curves.items():
    c = C[cid]; n = int(c.n); L = n.bit_length()
    for kind, chk in checks.items():
        for bits in (16, 20, 32, 64, 128):
            cnt = -(-2 * L // bits)
            if kind == 'gen': cnt = max(cnt, 24)
            ok = 0; t0 = time.time()
            for tr in range(TR):
                d = rnd.randrange(1, n); Q = c.Multiply(c.g, d)
                ks = nonces(kind, n, bits, cnt)
                sigs = [mk(cid, d, Q, k, hashlib.sha256(b'%d-%d' % (tr, i)).digest()) for i, k in enumerate(ks)]
                sigs = [s for s in sigs if s]
                res = chk.Check(sigs)
                good = res and all(s.test_info.weak for s in sigs) and int(util.GetAttachedInfo(sigs[0].test_info, consts.INFO_NAME_DISCRETE_LOG).value, 16) % n == d
                ok += bool(good)
            print(cname, kind, 'bits', bits, 'sigs', cnt, 'ok %d/%d' % (ok, TR), '%.1fs' % (time.time() - t0), flush=True)
