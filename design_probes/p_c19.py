import shim, random, copy, itertools
from fractions import Fraction
from paranoid_crypto.lib import linalg_util
rnd = random.Random(7)
class ML(list):
    moves = 0
    def insert(self, i, x):
        ML.moves += 1
        return super().insert(i, x)
bad = []; tot = 0; nonnone = 0; bad_nomove = 0; exc = 0
for trial in range(200000):
    m = rnd.randint(1, 6); n = rnd.randint(1, min(m, 4))
    x = [rnd.randint(-3, 3) for _ in range(n)]
    a = [[rnd.randint(-2, 2) for _ in range(n)] for _ in range(m)]
    # make some rows dependent / zero
    for i in range(m):
        r = rnd.random()
        if r < 0.15: a[i] = [0]*n
        elif r < 0.3 and i > 0:
            j = rnd.randrange(i); c = rnd.randint(-2, 2); a[i] = [c*v for v in a[j]]
    b = [sum(ai*xi for ai, xi in zip(row, x)) for row in a]
    a0 = copy.deepcopy(a); b0 = list(b)
    ML.moves = 0
    aa = ML(list(r) for r in a); bb = ML(b)
    tot += 1
    try:
        sol = linalg_util.solve_right(aa, bb)
    except Exception as e:
        exc += 1
        if exc < 5: print('EXC', type(e).__name__, e, a0, b0)
        continue
    if sol is None: continue
    nonnone += 1
    ok = all(sum(Fraction(int(ai))*Fraction(int(s.numerator), int(s.denominator)) for ai, s in zip(row, sol)) == bi for row, bi in zip(a0, b0))
    if not ok:
        bad.append((a0, b0, [str(s) for s in sol], ML.moves))
        if ML.moves == 0: bad_nomove += 1
print('tot', tot, 'nonnone', nonnone, 'bad', len(bad), 'bad_without_moves', bad_nomove, 'exc', exc)
for t in bad[:5]: print(t)
