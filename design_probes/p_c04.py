import shim, random, sys
import gmpy2 as gmpy
from paranoid_crypto.lib import rsa_util, special_case_factoring as scf, ntheory_util
rnd = random.Random(1)
def FactorWithGuessFixed(n, p_0):
  q_0 = n // p_0
  bits = n.bit_length()
  shift = max(0, (bits // 3) - 52)
  bound = int((int(n) >> (3 * shift)) ** (1 / 3)) << shift
  for _, u, v in ntheory_util.ContinuedFraction(p_0, q_0):
    if abs(u * q_0 - v * p_0) < bound:
      d = 4 * u * v * n
      a = gmpy.isqrt(d)
      if a * a < d:
        a += 1
      if gmpy.is_square(a * a - d):
        b = gmpy.isqrt(a * a - d)
        g = gmpy.gcd(a + b, n)
        if 1 < g < n:
          return [g, n // g]
  return None
def gen(L, dexp):
    p = gmpy.next_prime(rnd.getrandbits(L) | (1 << (L-1)) | (1 << (L-2)))
    q = gmpy.next_prime(p + 2**(L - dexp))
    return p, q
for L in (384, 512, 1024):
  for dexp in (100, 128, 160, 256, 2, 3):
    N = 150; miss = 0; missfix = 0; tot=0
    for _ in range(N):
        p, q = gen(L, dexp)
        n = p*q
        if n.bit_length() != 2*L: continue
        tot += 1
        r = rsa_util.CheckSmallUpperDifferences(n)
        if not r: 
            miss += 1
            # try fixed
            orig = scf.FactorWithGuess
            scf.FactorWithGuess = FactorWithGuessFixed
            r2 = rsa_util.CheckSmallUpperDifferences(n)
            scf.FactorWithGuess = orig
            if not r2: missfix += 1
    print(L, dexp, 'tot', tot, 'miss', miss, 'miss_after_fix', missfix, flush=True)
