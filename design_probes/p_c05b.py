import shim, time, random, sys, math
from absl import logging as alog
alog.set_verbosity(alog.FATAL)
import gmpy2 as gmpy
from paranoid_crypto import paranoid_pb2 as pb
from paranoid_crypto.lib import paranoid, util, rsa_single_checks as rs, consts, ntheory_util
rnd = random.Random(int(sys.argv[1]) if len(sys.argv) > 1 else 3)
def key(n, e=65537):
    k = pb.RSAKey(); k.rsa_info.n = util.Int2Bytes(int(n)); k.rsa_info.e = util.Int2Bytes(e); return k
def run(chk, n, p):
    k = key(n); r = chk.Check([k]); f = util.GetAttachedFactors(k.test_info, consts.INFO_NAME_N_FACTORS)
    return r, (f is not None and p in f)
def repeat_word(word, w, bits):
    v = 0
    for i in range(-(-bits // w) + 1): v |= word << (i * w)
    return v
def both_pattern_prime(bits, w):
    # repetition of w-bit word, few low bits deviate to make it prime
    while True:
        word = rnd.getrandbits(w) | 1
        v = (repeat_word(word, w, bits) >> rnd.randrange(w)) & ((1 << bits) - 1)
        if v.bit_length() != bits: continue
        # deviate low bits minimal: next prime above v
        c = int(gmpy.next_prime(v))
        if c.bit_length() == bits: return c
TR = 3
print('--- (c) both primes repeat words <= 64 bits: CheckContinuedFractions')
chk = rs.CheckContinuedFractions()
for nbits in (1024, 2048, 4096):
    for w1, w2 in ((3, 5), (8, 8), (16, 24), (32, 32), (48, 64), (64, 64), (7, 64)):
        ok = okf = 0
        for _ in range(TR):
            p = both_pattern_prime(nbits // 2, w1); q = both_pattern_prime(nbits // 2, w2)
            if p == q: continue
            r, f = run(chk, p * q, p); ok += r; okf += f
        print(nbits, 'w', w1, w2, 'flag %d/%d factored %d' % (ok, TR, okf), flush=True)
print('--- (d) low hamming weight <= 32 both')
chk = rs.CheckLowHammingWeight()
def lhw_prime(bits, hw):
    while True:
        v = (1 << (bits - 1)) | 1
        while bin(v).count('1') < hw: v |= 1 << rnd.randrange(1, bits - 1)
        if gmpy.is_prime(v): return v
for nbits in (1024, 2048, 4096):
    for hw1, hw2 in ((3, 3), (8, 8), (16, 16), (24, 24), (32, 32), (5, 32)):
        ok = okf = 0; t = time.time()
        for _ in range(TR):
            p = lhw_prime(nbits // 2, hw1); q = lhw_prime(nbits // 2, hw2)
            r, f = run(chk, p * q, p); ok += r; okf += f
        print(nbits, 'hw', hw1, hw2, 'flag %d/%d factored %d' % (ok, TR, okf), '%.1fs' % (time.time() - t), flush=True)
