"""Design probe: healthy artifacts through the all-checks entry points (C07/C02 spot check)."""
import shim, time, random, hashlib, sys
from absl import logging as alog
alog.set_verbosity(alog.FATAL)
import gmpy2 as gmpy
from paranoid_crypto import paranoid_pb2 as pb
from paranoid_crypto.lib import paranoid, util, ec_util, ec_aggregate_checks
ec_aggregate_checks.CheckECKeySmallDifference.__init__.__defaults__ = (2**10,)
C = ec_util.CURVE_FACTORY
rnd = random.Random(int(sys.argv[1]) if len(sys.argv) > 1 else 5)
def mk(cid, d, Q, k, h):
    c = C[cid]; n = c.n
    R = c.Multiply(c.g, k); r = int(R[0]) % int(n)
    z = c.TransformOrderLen(int.from_bytes(h, 'big'), 8 * len(h))
    s = int(gmpy.invert(k, n) * (z + r * d) % n)
    sig = pb.ECDSASignature()
    sig.ecdsa_sig_info.r = util.Int2Bytes(r); sig.ecdsa_sig_info.s = util.Int2Bytes(s); sig.ecdsa_sig_info.message_hash = h
    sig.issuer_key_info.curve_type = cid
    sig.issuer_key_info.x = util.Int2Bytes(int(Q[0])); sig.issuer_key_info.y = util.Int2Bytes(int(Q[1]))
    return sig
strong = [cid for cid, c in C.items() if c is not None and c.n.bit_length() >= 224]
for cnt in (1, 2, 30, 60, 130):
    sigs = []
    for cid in strong:
        c = C[cid]; n = int(c.n); d = rnd.randrange(1, n); Q = c.Multiply(c.g, d)
        for i in range(cnt):
            h = hashlib.new(rnd.choice(['sha1', 'sha256', 'sha384', 'sha512']), b'%d' % rnd.getrandbits(64)).digest()
            sigs.append(mk(cid, d, Q, rnd.randrange(1, n), h))
    rnd.shuffle(sigs)
    t = time.time(); r = paranoid.CheckAllECDSASigs(sigs); dt = time.time() - t
    weak = [(s.issuer_key_info.curve_type, [x.test_name for x in s.test_info.test_results if x.result]) for s in sigs if s.test_info.weak]
    entries = {len(s.test_info.test_results) for s in sigs}
    print('sigs/issuer', cnt, 'total', len(sigs), 'CheckAllECDSASigs ->', r, 'weak', weak[:3], 'entries per sig', entries, '%.1fs' % dt, flush=True)
keys = []
for cid in strong:
    c = C[cid]
    for _ in range(3):
        d = rnd.randrange(1, int(c.n)); P = c.Multiply(c.g, d)
        k = pb.ECKey(); k.ec_info.curve_type = cid; k.ec_info.x = util.Int2Bytes(int(P[0])); k.ec_info.y = util.Int2Bytes(int(P[1])); keys.append(k)
t = time.time(); r = paranoid.CheckAllEC(keys)
print('CheckAllEC 3 keys x 8 curves ->', r, [k.test_info.weak for k in keys].count(True), 'weak', '%.1fs' % (time.time() - t))
