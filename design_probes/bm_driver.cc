#include "paranoid_crypto/lib/randomness_tests/cc_util/berlekamp_massey.h"
#include <cstdio>
#include <cstdlib>
#include <iostream>
// reads lines: n hexbytes ; prints lfsr length
int main() {
  std::string line;
  while (std::getline(std::cin, line)) {
    size_t sp = line.find(' ');
    int n = atoi(line.substr(0, sp).c_str());
    std::string hex = sp == std::string::npos ? "" : line.substr(sp + 1);
    std::string bytes;
    for (size_t i = 0; i + 1 < hex.size(); i += 2) bytes.push_back((char)strtol(hex.substr(i, 2).c_str(), nullptr, 16));
    printf("%d\n", paranoid_crypto::lib::randomness_tests::cc_util::LfsrLengthStr(bytes, n));
  }
}
