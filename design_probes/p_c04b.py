import shim, time, random, sys, math
from absl import logging as alog
alog.set_verbosity(alog.FATAL)
import gmpy2 as gmpy
from paranoid_crypto import paranoid_pb2 as pb
from paranoid_crypto.lib import paranoid, util, rsa_single_checks as rs, consts, ntheory_util, rsa_util
from paranoid_crypto.lib.data import unseeded_rands
rnd = random.Random(int(sys.argv[1]) if len(sys.argv) > 1 else 3)
def key(n, e=65537):
    k = pb.RSAKey(); k.rsa_info.n = util.Int2Bytes(int(n)); k.rsa_info.e = util.Int2Bytes(e); return k
def run(chk, n, p):
    k = key(n); r = chk.Check([k]); f = util.GetAttachedFactors(k.test_info, consts.INFO_NAME_N_FACTORS)
    return r, (f is not None and p in f)
def rp(bits):
    return int(gmpy.next_prime(rnd.getrandbits(bits) | (3 << (bits-2))))
TR = 6
which = sys.argv[2] if len(sys.argv) > 2 else 'all'
if which in ('all', 'pollard'):
    print('--- pollard: p-1 and q-1 share 2^20-smooth factor >= 2^60, one of them smooth')
    m_chk = rs.CheckPollardpm1()
    small_primes = ntheory_util.Sieve(2**20)
    def smooth_number(bits):
        v = 1
        while v.bit_length() < bits:
            v *= rnd.choice(small_primes[:2000] if rnd.random() < 0.5 else small_primes)
        return v
    def prime_from(mult, bits, smooth):
        for _ in range(200000):
            if smooth:
                c = 2
                while (mult * c).bit_length() < bits - 1:
                    c *= rnd.choice(small_primes)
                if (mult*c).bit_length() > bits: continue
            else:
                c = rnd.getrandbits(bits - mult.bit_length()) | (1 << (bits - mult.bit_length() - 1))
                c &= ~1
            p = mult * c + 1
            if p.bit_length() == bits and gmpy.is_prime(p): return p
        raise RuntimeError
    for nbits in (1024, 2048):
        for both in (False, True):
            ok = okf = 0; t = time.time()
            for _ in range(TR):
                shared = smooth_number(64)
                p = prime_from(shared, nbits // 2, True)
                q = prime_from(shared, nbits // 2, both)
                if p == q: continue
                r, f = run(m_chk, p * q, p); ok += r; okf += f
            print(nbits, 'both_smooth', both, 'flag %d/%d factored %d' % (ok, TR, okf), '%.1fs' % (time.time() - t), flush=True)
if which in ('all', 'hl'):
    print('--- high+low bits equal: r low bits and s high bits equal, r>=3, r+s >= nbits/4+2')
    chk_f = rs.CheckFermat(); chk_h = rs.CheckHighAndLowBitsEqual()
    for nbits in (512, 1024, 2048):
        half = nbits // 2
        for frac in (0.0, 0.1, 0.3, 0.5, 0.7, 0.9, 1.0):
            tot = nbits // 4 + 2
            r = max(3, int(tot * frac)); s = tot - r
            ok = 0; cnt = 0
            for _ in range(TR):
                for attempt in range(100000):
                    p = rp(half)
                    mid = rnd.getrandbits(half - r - s)
                    q = (p >> (half - s) << (half - s)) | (mid << r) | (p & ((1 << r) - 1))
                    if q != p and gmpy.is_prime(q): break
                n = p * q
                if n.bit_length() != nbits: continue
                cnt += 1
                r1, f1 = run(chk_f, n, p); r2, f2 = run(chk_h, n, p)
                ok += (f1 or f2)
            print(nbits, 'r', r, 's', s, 'ok %d/%d' % (ok, cnt), flush=True)
if which in ('all', 'unseeded'):
    print('--- unseeded rands: p = next_prime-like near listed value')
    chk_u = rs.CheckUnseededRand()
    for psize, lst in sorted(unseeded_rands.size_unseeded_map.items()):
        lst = sorted(lst)
        ok = 0; cnt = 0; t = time.time()
        for v in rnd.sample(lst, min(12, len(lst))):
            for variant in (v, v | (1 << (psize - 1)), v | (3 << (psize - 2))):
                p = int(gmpy.next_prime(variant))
                if p.bit_length() != psize: continue
                q = rp(psize)
                n = p * q
                if (n.bit_length() + 1) // 2 != psize: continue
                cnt += 1
                r, f = run(chk_u, n, p); ok += f
        print('psize', psize, 'list', len(lst), 'ok %d/%d' % (ok, cnt), '%.1fs' % (time.time() - t), flush=True)
