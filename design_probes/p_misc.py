import shim, time, random, sys, math, hashlib
from absl import logging as alog
alog.set_verbosity(alog.FATAL)
import gmpy2 as gmpy
from paranoid_crypto import paranoid_pb2 as pb
from paranoid_crypto.lib import paranoid, util, ec_util, ec_single_checks, ec_aggregate_checks, ecdsa_sig_checks as sc, consts
ec_aggregate_checks.CheckECKeySmallDifference.__init__.__defaults__ = (2**8,)
C = ec_util.CURVE_FACTORY
P256 = pb.CurveType.CURVE_SECP256R1; K256 = pb.CurveType.CURVE_SECP256K1
rnd = random.Random(9)
def eckey(curve_id, d=None, pt=None):
    c = C[curve_id]
    if pt is None: pt = c.Multiply(c.g, d)
    k = pb.ECKey(); k.ec_info.curve_type = curve_id
    k.ec_info.x = util.Int2Bytes(int(pt[0])); k.ec_info.y = util.Int2Bytes(int(pt[1]))
    return k
def sig(curve_id, d, k, h, Q=None, issuer_curve=None):
    c = C[curve_id]; n = c.n
    R = c.Multiply(c.g, k); r = int(R[0]) % int(n)
    z = c.TransformOrderLen(int.from_bytes(h, 'big'), 8*len(h))
    s = int(gmpy.invert(k, n) * (z + r * d) % n)
    if Q is None: Q = c.Multiply(c.g, d)
    sg = pb.ECDSASignature()
    sg.ecdsa_sig_info.r = util.Int2Bytes(r); sg.ecdsa_sig_info.s = util.Int2Bytes(s); sg.ecdsa_sig_info.message_hash = h
    sg.issuer_key_info.curve_type = issuer_curve if issuer_curve is not None else curve_id
    sg.issuer_key_info.x = util.Int2Bytes(int(Q[0])); sg.issuer_key_info.y = util.Int2Bytes(int(Q[1]))
    return sg
which = sys.argv[1]
if which == 'f8':
    # two signatures with the same (x,y) issuer coordinates but different curve ids
    d = rnd.randrange(1, int(C[P256].n)); Q = C[P256].Multiply(C[P256].g, d)
    s1 = sig(P256, d, rnd.randrange(1, 2**255), hashlib.sha256(b'a').digest())
    s2 = sig(P256, d, rnd.randrange(1, 2**255), hashlib.sha256(b'b').digest(), issuer_curve=K256)  # same point claimed on k256: invalid there
    chk = sc.CheckIssuerKey()
    for order in ([s1, s2], [s2, s1]):
        for s in order: s.ClearField('test_info')
        r = chk.Check(order)
        print('batch order', [x.issuer_key_info.curve_type for x in order], '->', r, [util.GetTestResult(x.test_info, 'CheckIssuerKey').result for x in order])
    for s in (s1, s2):
        k = pb.ECKey(ec_info=s.issuer_key_info); print('CheckAllEC alone curve', k.ec_info.curve_type, paranoid.CheckAllEC([k]))
if which == 'f6':
    # private keys just above 2^32: verdict depends on batch size?
    chk = ec_single_checks.CheckWeakECPrivateKey()
    for delta in (1000, 300000, 500000, 900000, 1200000, 1500000, 3000000):
        d = 2**32 + delta
        alone = eckey(P256, d); r1 = chk.Check([alone])
        C[P256]._table = {}; C[P256]._table_size = 0
        inb = eckey(P256, d); others = [eckey(P256, rnd.getrandbits(250)) for _ in range(5)]
        r2 = chk.Check([inb] + others); w2 = util.GetTestResult(inb.test_info, 'CheckWeakECPrivateKey').result
        again = eckey(P256, d); r3 = chk.Check([again])
        C[P256]._table = {}; C[P256]._table_size = 0
        print('d=2^32+%d' % delta, 'alone(fresh):', r1, 'in batch of 6(fresh):', w2, 'alone after batch (cached table):', r3, flush=True)
if which == 'f10':
    from paranoid_crypto.lib.randomness_tests import random_test_suite as rts
    seq = [[('a', 0.005), ('b', 0.5)], [('b', 0.5)], []]
    it = iter(seq)
    def fake(bits, n): return next(it)
    ts = rts.TestStructure(fake, [], 1e-9, 0.01)
    for i in range(3):
        fin = ts.Run(0, 0)
        print('run', i + 1, 'finished', fin, dict(ts.state), dict(ts.combined_p_values))
    print('Failed()', ts.Failed())
if which == 'cusum':
    from paranoid_crypto.lib.randomness_tests import nist_suite, util as rutil
    def ref(bits, n):
        xs = [1 if (bits >> i) & 1 else -1 for i in range(n)]
        S = 0; zf = 0
        for x in xs: S += x; zf = max(zf, abs(S))
        S = 0; zb = 0
        for x in reversed(xs): S += x; zb = max(zb, abs(S))
        return zf, zb
    bad = 0; tot = 0; over1 = 0
    for t in range(3000):
        n = rnd.randint(8, 1000); bits = rnd.getrandbits(n)
        zf, zb = ref(bits, n)
        pv = dict(nist_suite.RandomWalk(bits, n))
        pf = nist_suite.CumulativeSumsPValue(n, zf); pb_ = nist_suite.CumulativeSumsPValue(n, zb)
        tot += 1
        if abs(pv['cumulative sums forward'] - pf) > 1e-12: print('FWD mismatch', n, hex(bits))
        if abs(pv['cumulative sums reverse'] - pb_) > 1e-12:
            bad += 1
            if pv['cumulative sums reverse'] > 1: over1 += 1
    print('cusum reverse mismatches', bad, '/', tot, 'pvalue>1:', over1)
